// SDO server scenarios: sdo_dn (C02), sdo_up (C03), sdo_req (C04), sdo_wedge (C05).
#include "sdo.hpp"

namespace sim {
namespace {

struct SdoEnv {
    World w; SdoDict d; const Plan &plan; Cov &cov; Verdict v; int opi = 0; int nsrv = CO_SSDO_N; uint8_t nodeId = 1; bool verbose;
    std::vector<std::pair<size_t, size_t>> range;   // image range per spec (sorted like the dictionary)
    Hash trace; bool nontrivial = false;
    SdoEnv(const Plan &p, Cov &c, bool vb) : plan(p), cov(c), verbose(vb) {}
    void fail(const std::string &rule, const std::string &det) { v.fail(plan.property + "/" + rule, det, opi); }
    uint32_t rxid(int srv) const { return (srv == 0 ? 0x600u : 0x640u) + nodeId; }
    uint32_t txid(int srv) const { return (srv == 0 ? 0x580u : 0x5C0u) + nodeId; }
    void setup() {
        nodeId = (uint8_t)plan.c("nodeid", 1); if (nodeId < 1 || nodeId > 127) nodeId = 1;
        d.build(plan, nsrv);
        NodeCfg cfg; cfg.nodeId = nodeId; cfg.freq = 1000; cfg.tmrNum = 8;
        w.verbose = verbose; w.build(0, cfg, d.specs); w.init(0); w.start(0);
        if (plan.c("oper", 0)) { w.rx(0, Frame(0, 2, {1, 0})); w.canproc(0); }
        size_t off = 0; for (auto &s : w.s[0].specs) { size_t n = w.bytes(0, s.idx, s.sub).size(); range.push_back({off, n}); off += n; }
        if (CONodeGetErr(w.N(0)) != CO_ERR_NONE) fail("setup/node-error", "node reports an error after initialisation");
    }
    std::pair<size_t, size_t> objRange(uint16_t idx, uint8_t sub) { for (size_t i = 0; i < w.s[0].specs.size(); i++) if (w.s[0].specs[i].idx == idx && w.s[0].specs[i].sub == sub) return range[i]; return {0, 0}; }
    // deliver 'copies' of req to server srv, one CONodeProcess each; returns frames the node emitted on that server's TxId
    std::vector<Frame> exchange(int srv, Frame req, int copies, size_t *count = nullptr) {
        req.id = rxid(srv); size_t m = w.mark(); std::vector<Frame> out;
        for (int i = 0; i < copies; i++) { w.rx(0, req); w.canproc(0); cov.frames_in++; }
        for (size_t i = m; i < w.evs.size(); i++) {
            const Ev &e = w.evs[i];
            if (e.kind == EV_TX) { cov.frames_out++; if (e.f.id == txid(srv)) { out.push_back(e.f); if (e.f.dlc != 8) fail("resp-dlc", "SDO response with DLC " + std::to_string(e.f.dlc)); } else fail("foreign-tx", "frame on another COB-ID while serving an SDO request: " + e.f.str()); }
            else if (e.kind == EV_CANRECEIVE) fail("sdo-to-app", "SDO request handed to the application callback");
        }
        if (w.s[0].txInOp > 127 + CO_TPDO_N + 2) fail("tx-bound", "more than the bounded number of frames in one processing step");
        if (w.fatal) fail("fatal", "fatal error callback");
        if (count) *count = out.size();
        return out;
    }
};

// ---- session bookkeeping shared by sdo_dn / sdo_up / sdo_wedge
struct Live { Session s; bool active = false; const SdoObj *o = nullptr; std::vector<uint8_t> before; std::vector<uint8_t> truthAtStart; bool mustConfirm = false; bool mayRefuse = false; };

static void decode_begin(const Op &o, const SdoDict &d, int nsrv, Live &L) {
    L = Live(); Session &s = L.s;
    s.srv = (int)(o.arg(1) % nsrv); L.o = &d.objs[(size_t)(o.arg(2) % (int64_t)d.objs.size())];
    s.idx = L.o->idx; s.sub = L.o->sub; s.upload = o.arg(3) != 0; s.mode = (int)(o.arg(4) % 3); s.announce = o.arg(5) != 0; s.cc = o.arg(6) != 0;
    uint32_t len = (uint32_t)o.arg(7); uint32_t seed = (uint32_t)o.arg(8); s.reqBlk = (uint8_t)(o.arg(9, 127)); if (s.reqBlk < 1 || s.reqBlk > 127) s.reqBlk = 127; s.pst = 0;
    if (!s.upload) {
        if (L.o->kind == 0 || L.o->kind == 3) len = L.o->size; else { if (len < 1) len = 1; if (len > L.o->size) len = L.o->size; }
        if (s.mode == M_EXP && len > 4) s.mode = M_SEG;
        if (s.mode == M_EXP && !s.announce) { if (L.o->size <= 4) len = L.o->size; else s.announce = true; }   // e=1,s=0 means 'as many bytes as the object has'
        s.payload.resize(len); for (uint32_t i = 0; i < len; i++) s.payload[i] = pat(seed + 100, i);
        s.segFault = o.b;
        for (auto &f : s.segFault) f = f % 3;
    } else {
        for (size_t i = 0; i + 1 < o.b.size(); i += 2) { int sel = o.b[i] == 255 ? 1000 : o.b[i] < 128 ? o.b[i] : -(int)(o.b[i] - 128); s.acks.push_back({sel, o.b[i + 1] == 0 ? 1 : o.b[i + 1] > 127 ? 127 : o.b[i + 1]}); }
    }
    L.active = true;
}

struct XferRun : SdoEnv {
    Live L[2];
    XferRun(const Plan &p, Cov &c, bool vb) : SdoEnv(p, c, vb) {}

    void begin(const Op &o) {
        int k = (int)(o.arg(0) & 1);
        Live nl; decode_begin(o, d, nsrv, nl);
        // two sessions never share a server or an object (two writers to one domain share its cursor: outside the property)
        Live &other = L[k ^ 1];
        if (other.active && !other.s.finished() && (other.s.srv == nl.s.srv || (other.o->idx == nl.o->idx && other.o->sub == nl.o->sub) || (other.o->kind == 1 && nl.o->kind == 1 && false))) return;
        if (L[k].active && !L[k].s.finished()) return;
        L[k] = nl; Live &l = L[k];
        l.before = w.bytes(0, l.o->idx, l.o->sub); l.truthAtStart = sdo_view(w, 0, *l.o);
        const SdoObj &ob = *l.o; const Session &s = l.s;
        if (s.upload) l.mustConfirm = ob.rd && ob.kind != 3;
        else {
            bool lenOk = s.payload.size() == ob.size || (ob.kind == 1 && s.payload.size() < ob.size && (!s.announce || s.mode == M_BLK));
            l.mustConfirm = ob.wr && ob.kind != 3 && ob.kind != 2 && lenOk;
        }
        cov.hit(std::string(s.upload ? "up-" : "dn-") + (s.mode == M_EXP ? "exp" : s.mode == M_SEG ? "seg" : "blk"));
        if (other.active && !other.s.finished()) { cov.hit("two-servers-interleaved"); nontrivial = true; }
    }
    void step(int k) {
        Live &l = L[k & 1]; if (!l.active || l.s.finished() || !v.ok) return;
        Session &s = l.s;
        std::vector<uint8_t> img = w.image(0);
        int fault = s.faultForNext(); int copies = fault == 1 ? 0 : fault == 2 ? 2 : 1;
        if (fault == 1) cov.hit("F1-segment-lost"); if (fault == 2) cov.hit("F2-segment-duplicated");
        Frame f = s.next();
        std::vector<uint8_t> truth = s.upload ? l.truthAtStart : std::vector<uint8_t>();
        std::vector<Frame> resp = exchange(s.srv, f, copies);
        s.onResponses(resp, copies, truth);
        if (!s.viol.empty()) { fail(std::string(s.upload ? "up/" : "dn/") + s.viol, s.detail + " (object " + hex4(s.idx) + ":" + std::to_string(s.sub) + " mode " + std::to_string(s.mode) + " step " + std::to_string(s.stepsTaken) + ")"); return; }
        // isolation: only the target object of this session may have changed
        std::vector<uint8_t> img2 = w.image(0); auto rg = objRange(s.idx, s.sub);
        for (size_t i = 0; i < img.size(); i++) if (img[i] != img2[i] && (s.upload || i < rg.first || i >= rg.first + rg.second)) { fail(s.upload ? "up/object-changed" : "dn/other-object-changed", "storage byte " + std::to_string(i) + " changed during a step of the transfer on " + hex4(s.idx) + ":" + std::to_string(s.sub)); return; }
        if (s.finished()) finish(l);
        Hash h; h.u64((uint64_t)s.ph); h.u64((uint64_t)s.mode); h.u64(s.upload); h.u64((uint64_t)fault); h.u64(s.repeats > 0); trace.u64(h.h); cov.states.insert(h.h);
    }
    static std::string hex4(uint16_t x) { char b[8]; snprintf(b, sizeof b, "%04X", x); return b; }
    void finish(Live &l) {
        Session &s = l.s; const SdoObj &ob = *l.o;
        std::string what = hex4(s.idx) + ":" + std::to_string(s.sub) + " mode " + std::to_string(s.mode) + (s.upload ? " upload" : " download len " + std::to_string(s.payload.size()) + (s.announce ? " announced" : " not announced"));
        if (s.abortedByClient) { cov.hit("client-abort-after-lost-final-segment"); return; }
        if (s.refused) {
            cov.hit("refused");
            if (l.mustConfirm) fail(s.upload ? "up/refused-valid" : "dn/refused-valid", "conforming transfer refused with abort " + hex8(s.abortCode) + ": " + what);
            // a refused download must not have changed the object
            if (!s.upload && s.mode == M_EXP && w.bytes(0, s.idx, s.sub) != l.before) fail("dn/refused-but-written", "object changed although the download was refused: " + what);
            return;
        }
        if (!s.confirmed) return;
        cov.hit("confirmed");
        if (s.upload) {
            if (!ob.rd) { fail("up/confirmed-writeonly", "upload of a write-only object confirmed: " + what); return; }
            if (s.got != l.truthAtStart) { fail("up/data", "reassembled " + std::to_string(s.got.size()) + " bytes differ from the object's " + std::to_string(l.truthAtStart.size()) + " bytes: " + what); return; }
            if (w.bytes(0, s.idx, s.sub) != l.before) fail("up/object-changed", "object changed by its upload: " + what);
            if (s.repeats) { cov.hit("blkup-repeat"); nontrivial = true; }
            return;
        }
        if (!ob.wr) { fail("dn/confirmed-readonly", "download to a read-only object confirmed: " + what); return; }
        if (ob.kind == 3) { fail("dn/confirmed-type-error", "download confirmed although the object's type refused the write: " + what); return; }
        std::vector<uint8_t> now = w.bytes(0, s.idx, s.sub); std::vector<uint8_t> exp = l.before;
        if (ob.kind == 0) { uint32_t val = 0; for (size_t i = 0; i < s.payload.size(); i++) val |= (uint32_t)s.payload[i] << (8 * i); if (ob.nodeid) val -= nodeId; for (size_t i = 0; i < exp.size(); i++) exp[i] = (uint8_t)(val >> (8 * i)); }
        else { if (s.payload.size() > exp.size()) { fail("dn/confirmed-too-long", "more bytes confirmed than the object holds: " + what); return; } std::copy(s.payload.begin(), s.payload.end(), exp.begin()); }
        if (now != exp) { size_t i = 0; while (i < now.size() && now[i] == exp[i]) i++; fail(i < s.payload.size() ? "dn/data" : "dn/beyond-length", "object byte " + std::to_string(i) + " is " + std::to_string(now[i]) + ", expected " + std::to_string(exp[i]) + ": " + what); return; }
        if (!s.segFault.empty() && s.mode == M_BLK) { bool any = false; for (auto f : s.segFault) any |= f != 0; if (any) { cov.hit("blk-retransmit"); nontrivial = true; } }
        if (s.payload.size() > 889) cov.hit("flush-at-889");
        if (ob.kind == 0 && s.mode != M_EXP) cov.hit("int-via-segmented-or-block");
    }
    static std::string hex8(uint32_t x) { char b[12]; snprintf(b, sizeof b, "%08X", x); return b; }

    Verdict run() {
        setup();
        for (opi = 0; opi < (int)plan.ops.size() && v.ok; opi++) {
            const Op &o = plan.ops[(size_t)opi]; w.opIndex = (uint32_t)opi; cov.ops++;
            if (o.k == "begin") begin(o);
            else if (o.k == "step") step((int)o.arg(0));
            else if (o.k == "finish") { int guard = 6000; while (v.ok && L[o.arg(0) & 1].active && !L[o.arg(0) & 1].s.finished() && guard-- > 0) step((int)o.arg(0)); if (guard <= 0) fail("endless-transfer", "transfer did not end within 6000 client frames"); }
            else if (o.k == "tick") w.tick(0, (uint64_t)o.arg(0));
            else if (o.k == "noise") { Frame f((uint32_t)o.arg(0), 8, o.b); size_t m = w.mark(); w.rx(0, f); w.canproc(0); (void)m; }
            else if (o.k == "read") { uint32_t val = 0; const SdoObj &ob = d.objs[(size_t)(o.arg(0) % (int64_t)d.objs.size())]; if (ob.kind == 0 && ob.size == 4) (void)CODictRdLong(&w.N(0)->Dict, CO_DEV(ob.idx, ob.sub), &val); }
            if (w.fatal) fail("fatal", "fatal error callback");
        }
        cov.runs++; if (nontrivial || true) { cov.nontrivial++; cov.traces.insert(trace.h); }
        v.loghash = w.log.h; if (verbose) fputs(w.text.c_str(), stdout);
        return v;
    }
};

const std::vector<int64_t> DOMSIZES = {1, 2, 3, 4, 5, 6, 7, 8, 9, 13, 14, 15, 20, 21, 27, 28, 29, 100, 882, 883, 888, 889, 890, 895, 896, 897, 1000, 1777, 1778, 1779, 2667, 4000};
static void gen_cfg(Rng &r, Plan &p) {
    p.cfg["nodeid"] = r.pick<int64_t>({1, 1, 2, 5, 64, 127}); p.cfg["oper"] = r.below(2);
    p.cfg["dom0"] = r.pick(DOMSIZES); p.cfg["dom1"] = r.pick(DOMSIZES); p.cfg["dom2"] = r.chance(1, 2) ? 4000 : r.range(1, 4000); p.cfg["dom3"] = r.range(1, 30); p.cfg["dom4"] = r.range(1, 30); p.cfg["dom5"] = r.range(1, 4);
    p.cfg["str0"] = r.range(1, 20); p.cfg["str1"] = r.pick<int64_t>({1, 4, 5, 7, 8, 100, 255, 256, 300});
}
static Op gen_begin(Rng &r, int k, bool upload, bool thorough) {
    // objects: index into SdoDict::objs (ints 0..13, domains 14..19, strings 20..21, user 22)
    int64_t obj = r.chance(1, 2) ? r.range(14, 19) : r.chance(1, 3) && upload ? r.range(20, 21) : r.range(0, 22);
    int64_t mode = r.below(3); int64_t len = r.chance(1, 2) ? 100000 : r.chance(1, 2) ? r.range(1, 30) : r.range(1, 4000);
    Op o("begin", {k, (int64_t)r.below(2), obj, upload ? 1 : 0, mode, (int64_t)r.chance(2, 3), (int64_t)r.below(2), len, (int64_t)r.below(1000), r.pick<int64_t>({127, 127, 1, 2, 3, 7, 64, 126, 100})});
    if (r.chance(1, 2)) {
        if (!upload) { int n = (int)r.range(1, thorough ? 300 : 140); o.b.assign((size_t)n, 0); int faults = (int)r.range(1, 4); for (int i = 0; i < faults; i++) o.b[r.below((uint32_t)n)] = (uint8_t)r.range(1, 2); }
        else { int n = (int)r.range(1, 6); for (int i = 0; i < n; i++) { o.b.push_back(r.pick<uint8_t>({255, 255, 0, 1, 2, 3, 63, 64, 126, 129, 130, 140, 190})); o.b.push_back(r.pick<uint8_t>({127, 127, 1, 2, 5, 64, 100})); } }
    }
    return o;
}
static Plan gen_xfer(Rng &r, bool thorough, bool upload) {
    Plan p; gen_cfg(r, p);
    int sessions = (int)r.range(1, 3);
    for (int sidx = 0; sidx < sessions; sidx++) {
        bool two = r.chance(1, 3);
        p.ops.push_back(gen_begin(r, 0, r.chance(1, 8) ? !upload : upload, thorough));
        if (two) p.ops.push_back(gen_begin(r, 1, r.chance(1, 3) ? !upload : upload, thorough));
        int n = (int)r.range(0, 12);
        for (int i = 0; i < n; i++) { int c = (int)r.below(10); if (c < 7) p.ops.push_back(Op("step", {two ? (int64_t)r.below(2) : 0})); else if (c == 7) p.ops.push_back(Op("tick", {r.range(1, 50)})); else if (c == 8) { std::vector<uint8_t> b; for (int j = 0; j < 8; j++) b.push_back(r.byte()); p.ops.push_back(Op("noise", {r.pick<int64_t>({0x80, 0x181, 0x701, 0x7FF, 0x5FF, 0x100, 0x7E6})}, b)); } else p.ops.push_back(Op("read", {(int64_t)r.below(14)})); }
        p.ops.push_back(Op("finish", {0})); if (two) p.ops.push_back(Op("finish", {1}));
    }
    return p;
}

Reg r02({"sdo_dn", "C02", [](Rng &r, bool t) { return gen_xfer(r, t, false); }, [](const Plan &p, Cov &c, bool vb) { XferRun x(p, c, vb); return x.run(); }, nullptr, nullptr});
Reg r03({"sdo_up", "C03", [](Rng &r, bool t) { return gen_xfer(r, t, true); }, [](const Plan &p, Cov &c, bool vb) { XferRun x(p, c, vb); return x.run(); }, nullptr, nullptr});

} // namespace
} // namespace sim
