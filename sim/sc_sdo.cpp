// SDO server scenarios: sdo_dn (C02), sdo_up (C03), sdo_req (C04), sdo_wedge (C05).
#include "sdo.hpp"

namespace sim {
namespace {

struct SdoEnv {
    World w; SdoDict d; const Plan &plan; Cov &cov; Verdict v; int opi = 0; int nsrv = CO_SSDO_N; uint8_t nodeId = 1; bool verbose;
    std::vector<std::pair<size_t, size_t>> range;   // image range per spec (sorted like the dictionary)
    Hash trace; bool nontrivial = false; bool srv1late = false, srv1on = true;
    SdoEnv(const Plan &p, Cov &c, bool vb) : plan(p), cov(c), verbose(vb) {}
    void fail(const std::string &rule, const std::string &det) { v.fail(plan.property + "/" + rule, det, opi); }
    bool parasrv = false;   // the second server's COB-IDs live, by reference, in a reset-communication parameter group (1010h:1): clients follow what 1201h announces
    uint32_t rxid(int srv) { if (srv == 1 && parasrv) return (w.raw(0, 0x1201, 1) + nodeId) & 0x7FF; return (srv == 0 ? 0x600u : 0x640u) + nodeId; }
    uint32_t txid(int srv) { if (srv == 1 && parasrv) return (w.raw(0, 0x1201, 2) + nodeId) & 0x7FF; return (srv == 0 ? 0x580u : 0x5C0u) + nodeId; }
    void setup() {
        nodeId = (uint8_t)plan.c("nodeid", 1); if (nodeId < 1 || nodeId > 127) nodeId = 1;
        d.build(plan, nsrv);
        // 'srv1late': the second server's COB-IDs are writable and invalid at start-up; the application switches it on later through the API (CODictWrLong), possibly while the first server is in a transfer
        srv1late = nsrv > 1 && plan.c("srv1late", 0) != 0; srv1on = !srv1late;
        if (srv1late) for (auto &sp : d.specs) if (sp.idx == 0x1201 && (sp.sub == 1 || sp.sub == 2)) { sp.flags = CO_OBJ_DN__RW; sp.val |= 0x80000000u; }
        NodeCfg cfg; cfg.nodeId = nodeId; cfg.freq = 1000; cfg.tmrNum = 8;
        parasrv = nsrv > 1 && !srv1late && plan.c("parasrv", 0) != 0; std::vector<ParaSpec> ps;
        if (parasrv) { ParaSpec g; g.offset = 0; g.size = 8; g.type = CO_RESET_COM; ps.push_back(g); add_typed(d.specs, T_PARASTORE, 0x1010, 0, CO_OBJ_D___R_, 1); add_typed(d.specs, T_PARASTORE, 0x1010, 1, CO_OBJ_____RW, 0, 0);
            for (auto &sp : d.specs) if (sp.idx == 0x1201 && (sp.sub == 1 || sp.sub == 2)) { sp.flags = CO_OBJ__N__R_; sp.pgrp = 0; sp.poff = sp.sub == 1 ? 0 : 4; }   /* read-only for SDO clients (no history can legitimately move the server), written by the application through the API */ cov.hit("second-server-cobids-held-in-a-parameter-group"); }
        w.verbose = verbose; w.build(0, cfg, d.specs, ps, {}, parasrv ? 8 : 0); if (parasrv) memcpy(&w.s[0].nvm[0], w.s[0].paraRam[0], 8);   // NVM as programmed at production
        w.init(0); w.start(0);
        if (plan.c("oper", 0)) { w.rx(0, Frame(0, 2, {1, 0})); w.canproc(0); }
        if (plan.c("poolfull", 0)) { w.cur = 0; while (COTmrCreate(&w.N(0)->Tmr, 1000000, 0, [](void *) {}, nullptr) >= 0) {} (void)CONodeGetErr(w.N(0)); cov.hit("F15-timer-pool-full"); }   // every timer slot taken by the application
        size_t off = 0; for (auto &s : w.s[0].specs) { size_t n = w.bytes(0, s.idx, s.sub).size(); range.push_back({off, n}); off += n; }
        if (CONodeGetErr(w.N(0)) != CO_ERR_NONE) fail("setup/node-error", "node reports an error after initialisation");
    }
    // the application's main loop after a request was served: a node shut down through 2501h is started again, an SDO channel locked through 2502h is reopened ('appcmd' plans)
    void appMainLoop() {
        if (!plan.c("appcmd", 0) || !w.N(0)) return; w.cur = 0; CO_NODE *n = w.N(0);
        if (CONmtGetMode(&n->Nmt) == CO_STOP) { CONmtSetMode(&n->Nmt, plan.c("oper", 0) ? CO_OPERATIONAL : CO_PREOP); cov.hit("node-shut-down-by-an-object-write-and-started-again"); nontrivial = true; }
        uint32_t id = w.raw(0, 0x1200, 1); if (id & 0x80000000u) { (void)CODictWrLong(&n->Dict, CO_DEV(0x1200, 1), ((id & 0x7FFu) + nodeId)); (void)CONodeGetErr(n); cov.hit("sdo-channel-locked-by-an-object-write-and-reopened"); nontrivial = true; }
    }
    std::pair<size_t, size_t> objRange(uint16_t idx, uint8_t sub) { for (size_t i = 0; i < w.s[0].specs.size(); i++) if (w.s[0].specs[i].idx == idx && w.s[0].specs[i].sub == sub) return range[i]; return {0, 0}; }
    // deliver 'copies' of req to server srv, one CONodeProcess each; returns frames the node emitted on that server's TxId
    // 'firstFail' (optional): frames the driver refused are then part of the result (the server built them) and *firstFail is the index of the first refused one (-1 none)
    std::vector<Frame> exchange(int srv, Frame req, int copies, size_t *count = nullptr, int *firstFail = nullptr) {
        req.id = rxid(srv); size_t m = w.mark(); std::vector<Frame> out; if (firstFail) *firstFail = -1;
        for (int i = 0; i < copies; i++) { w.rx(0, req); w.canproc(0); cov.frames_in++; }
        for (size_t i = m; i < w.evs.size(); i++) {
            const Ev &e = w.evs[i];
            if (e.kind == EV_TXFAIL && firstFail && e.f.id == txid(srv)) { if (*firstFail < 0) *firstFail = (int)out.size(); out.push_back(e.f); }
            else if (e.kind == EV_TX) { cov.frames_out++; if (e.f.id == txid(srv)) { out.push_back(e.f); if (e.f.dlc != 8) fail("resp-dlc", "SDO response with DLC " + std::to_string(e.f.dlc)); } else fail("foreign-tx", "frame on another COB-ID while serving an SDO request: " + e.f.str()); }
            else if (e.kind == EV_CANRECEIVE) fail("sdo-to-app", "SDO request handed to the application callback");
        }
        if (w.s[0].txInOp > 127 + CO_TPDO_N + 2) fail("tx-bound", "more than the bounded number of frames in one processing step");
        if (w.fatal) fail("fatal", "fatal error callback");
        if (count) *count = out.size();
        appMainLoop();
        return out;
    }
};

// ---- session bookkeeping shared by sdo_dn / sdo_up / sdo_wedge
struct Live { bool checked = true; Session s; bool active = false; const SdoObj *o = nullptr; std::vector<uint8_t> before; std::vector<uint8_t> truthAtStart; bool mustConfirm = false; bool mayRefuse = false; };

static void decode_begin(const Op &o, const SdoDict &d, int nsrv, Live &L) {
    L = Live(); Session &s = L.s;
    s.srv = (int)(o.arg(1) % nsrv); L.o = &d.objs[(size_t)(o.arg(2) % (int64_t)d.objs.size())];
    s.idx = L.o->idx; s.sub = L.o->sub; s.upload = o.arg(3) != 0; s.mode = (int)(o.arg(4) % 3); s.announce = o.arg(5) != 0; s.cc = o.arg(6) != 0;
    uint32_t len = (uint32_t)o.arg(7); uint32_t seed = (uint32_t)o.arg(8); s.reqBlk = (uint8_t)(o.arg(9, 127)); if (s.reqBlk < 1 || s.reqBlk > 127) s.reqBlk = 127; s.pst = 0;
    if (!s.upload) {
        if (L.o->kind == 0 || L.o->kind == 3) len = L.o->size; else { if (len < 1) len = 1; if (len > L.o->size) len = L.o->size; }
        if (s.mode == M_EXP && len > 4) s.mode = M_SEG;
        if (s.mode == M_EXP && !s.announce) { if (L.o->size <= 4) len = L.o->size; else s.announce = true; }   // e=1,s=0 means 'as many bytes as the object has'
        s.payload.resize(len); for (uint32_t i = 0; i < len; i++) s.payload[i] = pat(seed + 100, i);
        s.segFault = o.b;
        for (auto &f : s.segFault) f = f % 3;
    } else {
        for (size_t i = 0; i + 1 < o.b.size(); i += 2) { int sel = o.b[i] == 255 ? 1000 : o.b[i] < 128 ? o.b[i] : -(int)(o.b[i] - 128); s.acks.push_back({sel, o.b[i + 1] == 0 ? 1 : o.b[i + 1] > 127 ? 127 : o.b[i + 1]}); }
    }
    L.active = true;
}

struct XferRun : SdoEnv {
    Live L[2]; bool wedge = false; bool recovered[2] = {true, true};   // C05: server idle by construction (after abort / reset / a completed checked transfer)
    XferRun(const Plan &p, Cov &c, bool vb) : SdoEnv(p, c, vb) {}

    void begin(const Op &o) {
        int k = (int)(o.arg(0) & 1);
        Live nl; decode_begin(o, d, nsrv, nl); if (nl.s.srv == 1 && !srv1on) return;   // the second server is not switched on yet
        // two sessions never share a server or an object (two writers to one domain share its cursor: outside the property)
        Live &other = L[k ^ 1];
        if (other.active && !other.s.finished() && (other.s.srv == nl.s.srv || (other.o->idx == nl.o->idx && other.o->sub == nl.o->sub) || (other.o->kind == 1 && nl.o->kind == 1 && false))) return;
        if (L[k].active && !L[k].s.finished()) return;
        L[k] = nl; Live &l = L[k];
        l.checked = !wedge || recovered[l.s.srv]; if (!l.checked) cov.hit("history-session"); else if (wedge) { cov.hit("clean-transfer-after-recovery"); nontrivial = true; }
        l.before = w.bytes(0, l.o->idx, l.o->sub); l.truthAtStart = sdo_view(w, 0, *l.o);
        const SdoObj &ob = *l.o; const Session &s = l.s;
        if (s.upload) l.mustConfirm = ob.rd && ob.kind != 3;
        else {
            bool lenOk = s.payload.size() == ob.size || (ob.kind == 1 && s.payload.size() < ob.size && (!s.announce || s.mode == M_BLK));
            l.mustConfirm = ob.wr && ob.kind != 3 && ob.kind != 2 && lenOk;
        }
        cov.hit(std::string(s.upload ? "up-" : "dn-") + (s.mode == M_EXP ? "exp" : s.mode == M_SEG ? "seg" : "blk"));
        if (other.active && !other.s.finished()) { cov.hit("two-servers-interleaved"); nontrivial = true; }
    }
    void step(int k, int failAfter = -1) {
        Live &l = L[k & 1]; if (!l.active || l.s.finished() || !v.ok) return;
        Session &s = l.s;
        std::vector<uint8_t> img = w.image(0);
        if (failAfter >= 0) w.s[0].sendFailAfter = failAfter;     // F5: the CAN driver refuses one frame of this exchange
        int fault = s.faultForNext(); int copies = fault == 1 ? 0 : fault == 2 ? 2 : 1;
        if (fault == 1) cov.hit("F1-segment-lost"); if (fault == 2) cov.hit("F2-segment-duplicated");
        Frame f = s.next();
        std::vector<uint8_t> truth = s.upload ? l.truthAtStart : std::vector<uint8_t>();
        int firstFail = -1; std::vector<Frame> resp = exchange(s.srv, f, copies, nullptr, &firstFail); w.s[0].sendFailAfter = -1;
        if (firstFail >= 0) { cov.hit("F5-sdo-response-refused-by-driver"); nontrivial = true; }
        s.onResponses(resp, copies, truth, firstFail);
        if (!l.checked) { recovered[s.srv] = false; if (!s.viol.empty()) { s.viol.clear(); s.ph = Session::P_DONE; } if (s.finished()) l.active = false; return; }
        if (!s.viol.empty()) { fail(std::string(s.upload ? "up/" : "dn/") + s.viol, s.detail + " (object " + hex4(s.idx) + ":" + std::to_string(s.sub) + " mode " + std::to_string(s.mode) + " step " + std::to_string(s.stepsTaken) + ")"); return; }
        // isolation: only the target object of this session may have changed
        std::vector<uint8_t> img2 = w.image(0); auto rg = objRange(s.idx, s.sub);
        for (size_t i = 0; i < img.size(); i++) if (img[i] != img2[i] && (s.upload || i < rg.first || i >= rg.first + rg.second)) { fail(s.upload ? "up/object-changed" : "dn/other-object-changed", "storage byte " + std::to_string(i) + " changed during a step of the transfer on " + hex4(s.idx) + ":" + std::to_string(s.sub)); return; }
        if (s.finished()) finish(l);
        Hash h; h.u64((uint64_t)s.ph); h.u64((uint64_t)s.mode); h.u64(s.upload); h.u64((uint64_t)fault); h.u64(s.repeats > 0); trace.u64(h.h); cov.states.insert(h.h);
    }
    static std::string hex4(uint16_t x) { char b[8]; snprintf(b, sizeof b, "%04X", x); return b; }
    void finish(Live &l) {
        Session &s = l.s; const SdoObj &ob = *l.o;
        std::string what = hex4(s.idx) + ":" + std::to_string(s.sub) + " mode " + std::to_string(s.mode) + (s.upload ? " upload" : " download len " + std::to_string(s.payload.size()) + (s.announce ? " announced" : " not announced"));
        if (s.abortedByClient) { cov.hit(s.lostResponse ? "client-abort-after-lost-response" : "client-abort-after-lost-final-segment"); return; }
        if (s.refused) {
            cov.hit("refused");
            if (l.mustConfirm) fail(s.upload ? "up/refused-valid" : "dn/refused-valid", "conforming transfer refused with abort " + hex8(s.abortCode) + ": " + what);
            // a refused download must not have changed the object
            if (!s.upload && s.mode == M_EXP && w.bytes(0, s.idx, s.sub) != l.before) fail("dn/refused-but-written", "object changed although the download was refused: " + what);
            return;
        }
        if (!s.confirmed) return;
        cov.hit("confirmed");
        if (s.upload) {
            if (!ob.rd) { fail("up/confirmed-writeonly", "upload of a write-only object confirmed: " + what); return; }
            if (s.got != l.truthAtStart) { fail("up/data", "reassembled " + std::to_string(s.got.size()) + " bytes differ from the object's " + std::to_string(l.truthAtStart.size()) + " bytes: " + what); return; }
            if (w.bytes(0, s.idx, s.sub) != l.before) fail("up/object-changed", "object changed by its upload: " + what);
            if (s.repeats) { cov.hit("blkup-repeat"); nontrivial = true; }
            return;
        }
        if (!ob.wr) { fail("dn/confirmed-readonly", "download to a read-only object confirmed: " + what); return; }
        if (ob.kind == 3) { fail("dn/confirmed-type-error", "download confirmed although the object's type refused the write: " + what); return; }
        std::vector<uint8_t> now = w.bytes(0, s.idx, s.sub); std::vector<uint8_t> exp = l.before;
        if (ob.kind == 0) { uint32_t val = 0; for (size_t i = 0; i < s.payload.size(); i++) val |= (uint32_t)s.payload[i] << (8 * i); if (ob.nodeid) val -= nodeId; for (size_t i = 0; i < exp.size(); i++) exp[i] = (uint8_t)(val >> (8 * i)); }
        else { if (s.payload.size() > exp.size()) { fail("dn/confirmed-too-long", "more bytes confirmed than the object holds: " + what); return; } std::copy(s.payload.begin(), s.payload.end(), exp.begin()); }
        if (now != exp) { size_t i = 0; while (i < now.size() && now[i] == exp[i]) i++; fail(i < s.payload.size() ? "dn/data" : "dn/beyond-length", "object byte " + std::to_string(i) + " is " + std::to_string(now[i]) + ", expected " + std::to_string(exp[i]) + ": " + what); return; }
        if (!s.segFault.empty() && s.mode == M_BLK) { bool any = false; for (auto f : s.segFault) any |= f != 0; if (any) { cov.hit("blk-retransmit"); nontrivial = true; } }
        if (s.payload.size() > 889) cov.hit("flush-at-889");
        if (ob.kind == 0 && s.mode != M_EXP) cov.hit("int-via-segmented-or-block");
    }
    static std::string hex8(uint32_t x) { char b[12]; snprintf(b, sizeof b, "%08X", x); return b; }

    // ---- raw frame to a server: safety only (C05 history, C04 recovery)
    void garbage(int srv, Frame f) {
        // a raw frame that names the object of a transfer running on the other server: two users of one entry share its cursor, which no property covers - that transfer is no longer judged
        for (int k = 0; k < 2; k++) if (L[k].active && L[k].checked && !L[k].s.finished() && L[k].s.srv != srv && f.u16(1) == L[k].s.idx && f.d[3] == L[k].s.sub) { L[k].checked = false; cov.hit("raw-frame-on-other-server-names-the-same-object"); }
        f.id = rxid(srv); size_t m = w.mark(); w.rx(0, f); w.canproc(0); cov.frames_in++;
        for (size_t i = m; i < w.evs.size(); i++) { const Ev &e = w.evs[i]; if (e.kind == EV_TX) { cov.frames_out++; if (e.f.id != txid(srv)) fail("foreign-tx", "frame on another COB-ID while serving an SDO request: " + e.f.str()); } else if (e.kind == EV_CANRECEIVE) fail("sdo-to-app", "SDO request handed to the application callback"); }
        if (w.s[0].txInOp > 127 + CO_TPDO_N + 2) fail("tx-bound", "more than the bounded number of frames in one processing step");
        appMainLoop();
        for (int k = 0; k < 2; k++) if (L[k].active && L[k].s.srv == srv) L[k].active = false;   // whatever was open on this server is no longer tracked
        recovered[srv] = (f.d[0] == 0x80);      // only a client abort leaves the server idle by construction
        // reach: abstract server state through the public structure (coverage only, never an oracle)
        CO_SDO *sv = &w.N(0)->Sdo[srv]; Hash h; h.u64((uint64_t)sv->Blk.State); h.u64(sv->Obj != 0); h.u64(sv->Buf.Num == 0 ? 0 : sv->Buf.Num < 7 ? 1 : sv->Buf.Num < 883 ? 2 : 3); h.u64(sv->Seg.TBit); h.u64(sv->Seg.Num > 0); h.u64(sv->Blk.Len > 0);
        cov.states.insert(h.h); Hash h2 = h; h2.u64(f.d[0] >> 5); cov.pairs.insert(h2.h); trace.u64(h2.h);
    }
    // ---- C04: one request under test
    enum SrvState { ST_IDLE, ST_SEG_DN, ST_SEG_UP, ST_BLK_DN, ST_BLK_DN_END, ST_BLK_UP_INIT, ST_BLK_UP_ACK, ST_BLK_UP_FIN };
    SrvState stateOf(int srv, Live **lp) {
        *lp = nullptr;
        for (int k = 0; k < 2; k++) if (L[k].active && !L[k].s.finished() && L[k].s.srv == srv && L[k].s.stepsTaken > 0) {
            *lp = &L[k]; const Session &s = L[k].s;
            switch (s.ph) { case Session::P_SEG: return s.upload ? ST_SEG_UP : ST_SEG_DN; case Session::P_BLK_SEGS: return ST_BLK_DN; case Session::P_BLK_END: return ST_BLK_DN_END; case Session::P_BLK_START: return ST_BLK_UP_INIT;
                          case Session::P_BLK_ACK: return ST_BLK_UP_ACK; case Session::P_BLK_FIN: return ST_BLK_UP_FIN; default: return ST_IDLE; }
        }
        return ST_IDLE;
    }
    bool metaOf(uint16_t idx, uint8_t sub, SdoObj &m) {
        const ObjSpec *o = w.ospec(0, idx, sub); if (!o) return false;
        m.idx = idx; m.sub = sub; m.rd = (o->flags & CO_OBJ_____R_) != 0; m.wr = (o->flags & CO_OBJ______W) != 0; m.nodeid = (o->flags & CO_OBJ__N____) != 0;
        m.kind = o->type == T_DOMAIN ? 1 : o->type == T_STRING ? 2 : o->type == T_USER ? ((o->val >> 24) ? 3 : 5) : (o->type == T_U8 || o->type == T_U16 || o->type == T_U32 || o->type == T_APP) ? 0 : 4;
        m.size = o->type == T_DOMAIN || o->type == T_STRING ? (uint32_t)o->bytes.size() : (o->type == T_USER || o->type == T_APP) ? 4 : (uint32_t)ot_width(o->type, sub);
        return true;
    }
    bool indexExists(uint16_t idx) { for (auto &sp : w.s[0].specs) if (sp.idx == idx) return true; return false; }
    void req(const Op &o) {
        int srv = (int)(o.arg(0) % nsrv); Frame f(0, 8, o.b); Live *lp; SrvState st = stateOf(srv, &lp);
        uint8_t cmd = f.d[0]; uint16_t idx = f.u16(1); uint8_t sub = f.d[3]; uint8_t ccs = cmd >> 5;
        std::vector<uint8_t> img = w.image(0);
        SdoObj m; bool exists = metaOf(idx, sub, m); std::vector<uint8_t> viewBefore = exists ? sdo_view(w, 0, m) : std::vector<uint8_t>();
        uint32_t hbBefore[4] = {0, 0, 0, 0}; bool hbc = plan.c("hbcons", 0) != 0; if (hbc) for (int q = 1; q <= 3; q++) hbBefore[q] = w.raw(0, 0x1016, (uint8_t)q);
        std::vector<Frame> resp = exchange(srv, f, 1);
        if (lp) lp->active = false;
        std::string ctx = " [state " + std::to_string(st) + " request " + f.str() + "]";
        Hash h; h.u64((uint64_t)st); h.u64(ccs); h.u64(exists ? 2 : indexExists(idx) ? 1 : 0); h.u64(cmd & 0x1F); cov.states.insert(h.h); trace.u64(h.h);
        { Hash c; c.u64((uint64_t)st); c.u64(ccs); c.u64(exists ? 2 : indexExists(idx) ? 1 : 0); cov.pairs.insert(c.h); }
        if (st != ST_IDLE) nontrivial = true;
        if (cmd == 0x80) { cov.hit("client-abort"); return; }           // how an abort is acknowledged is not constrained
        bool changed = w.image(0) != img;
        auto isAbort = [&](const Frame &r) { return r.d[0] == 0x80; };
        // whatever the reason: a request that arrives in idle state and is refused changes nothing
        if (st == ST_IDLE && resp.size() == 1 && isAbort(resp[0]) && changed) { fail("req/refused-but-changed", "request refused with " + hex8(resp[0].u32(4)) + " although object storage changed" + ctx); return; }
        auto abortWith = [&](uint32_t code, const char *rule) {
            if (resp.size() != 1) { fail(std::string("req/count-") + rule, std::to_string(resp.size()) + " responses" + ctx); return; }
            if (!isAbort(resp[0])) { fail(std::string("req/not-refused-") + rule, "expected abort " + hex8(code) + ", got " + resp[0].str() + ctx); return; }
            if (code && resp[0].u32(4) != code) { fail(std::string("req/abort-code-") + rule, "expected abort " + hex8(code) + ", got " + hex8(resp[0].u32(4)) + ctx); return; }
            if (resp[0].u16(1) != idx || resp[0].d[3] != sub) { if (st == ST_IDLE) { fail("req/abort-mux", "abort names " + resp[0].str() + ctx); return; } }
            if (changed) fail(std::string("req/refused-but-changed-") + rule, "a refused request changed object storage" + ctx);
            cov.hit(std::string("verdict-") + rule);
        };
        // (ii) any positive answer to an initiate request concerns the object named in the request
        bool isInit = (ccs == 1) || (ccs == 2) || (ccs == 6 && !(cmd & 1)) || (ccs == 5 && (cmd & 3) == 0);
        bool inBlockDn = st == ST_BLK_DN || st == ST_BLK_DN_END;     // inside a block download every frame but the end request is a segment by definition
        if (isInit && !inBlockDn && resp.size() == 1 && !isAbort(resp[0])) {
            const Frame &r = resp[0]; uint8_t scs = r.d[0] >> 5;
            bool positiveInit = (ccs == 1 && scs == 3) || (ccs == 2 && scs == 2) || (ccs == 6 && (r.d[0] & 0xE3) == 0xA0) || (ccs == 5 && (r.d[0] & 0xE1) == 0xC0); (void)scs;
            if (positiveInit) {
                if (r.u16(1) != idx || r.d[3] != sub) { fail("req/positive-wrong-mux", "positive response " + r.str() + " names another object" + ctx); return; }
                if (!exists) { fail("req/positive-for-absent-object", "positive response " + r.str() + " for an object that does not exist" + ctx); return; }
                if (ccs == 2) { // upload: data or size must be the named object's
                    if (!m.rd) { fail("req/positive-writeonly", "upload of a write-only object answered " + r.str() + ctx); return; }
                    if (r.d[0] & 2) { uint32_t n = (r.d[0] & 1) ? 4 - ((r.d[0] >> 2) & 3) : (uint32_t)viewBefore.size(); if (n != viewBefore.size() || memcmp(r.d + 4, viewBefore.data(), std::min<size_t>(n, 4)) != 0) { fail("req/upload-wrong-data", "expedited upload answered " + r.str() + " but the object holds " + hexstr(viewBefore) + ctx); return; } }
                    else if ((r.d[0] & 1) && r.u32(4) != viewBefore.size()) { fail("req/upload-wrong-size", "segmented upload announces " + std::to_string(r.u32(4)) + " bytes, object has " + std::to_string(viewBefore.size()) + ctx); return; }
                }
                if (ccs == 5 && (r.d[0] & 2) && r.u32(4) != viewBefore.size()) { fail("req/upload-wrong-size", "block upload announces " + std::to_string(r.u32(4)) + " bytes, object has " + std::to_string(viewBefore.size()) + ctx); return; }
                if (ccs == 5 && !m.rd) { fail("req/positive-writeonly", "block upload of a write-only object answered " + r.str() + ctx); return; }
                if ((ccs == 1 || ccs == 6) && !m.wr) { fail("req/positive-readonly", "download to a read-only object answered " + r.str() + ctx); return; }
                if (ccs == 1 && (cmd & 2)) { // expedited download confirmed: the named object must now hold the data
                    uint32_t n = (cmd & 1) ? 4 - ((cmd >> 2) & 3) : m.size; std::vector<uint8_t> now = sdo_view(w, 0, m);
                    if (m.kind != 3 && m.kind != 5 && (now.size() < n || memcmp(now.data(), f.d + 4, std::min<uint32_t>(n, 4)) != 0)) { fail("req/download-confirmed-not-performed", "expedited download confirmed but the object holds " + hexstr(now) + ctx); return; }
                    if (m.kind == 3 || m.kind == 5) { fail("req/download-confirmed-type-error", "download confirmed although the object's type refuses writes" + ctx); return; }
                    // nothing but the named object changed
                    auto rg = objRange(idx, sub); std::vector<uint8_t> img2 = w.image(0); for (size_t i = 0; i < img.size(); i++) if (img[i] != img2[i] && (i < rg.first || i >= rg.first + rg.second)) { fail("req/other-object-changed", "expedited download changed another object" + ctx); return; }
                }
                cov.hit("positive-init");
            }
        }
        if (st == ST_IDLE) {
            cov.hit("idle-request");
            bool rsv = false;   // reserved bits set: verdict not constrained (count still is)
            // expected refusal by object / sub-index / access (CiA precedence)
            auto lookupVerdict = [&](bool write) -> uint32_t { if (!exists) return indexExists(idx) ? 0x06090011u : 0x06020000u; if (write && !m.wr) return 0x06010002u; if (!write && !m.rd) return 0x06010001u; return 0; };
            if (resp.size() != 1) { fail("req/count-idle", std::to_string(resp.size()) + " responses to a request in idle state" + ctx); return; }
            if (ccs == 1) {
                rsv = (cmd & 0x10) != 0 || (!(cmd & 2) && (cmd & 0x0C)) || ((cmd & 2) && !(cmd & 1) && (cmd & 0x0C)); if (rsv) { cov.hit("reserved-bits"); return; }
                uint32_t vd = lookupVerdict(true); if (vd) { abortWith(vd, vd == 0x06020000 ? "no-object" : vd == 0x06090011 ? "no-subindex" : "read-only"); return; }
                bool exped = cmd & 2; bool sz = cmd & 1; uint32_t width = exped ? (sz ? 4 - ((cmd >> 2) & 3) : 0) : (sz ? f.u32(4) : 0);
                if (sz && width == 0) sz = false;     // an indicated size of 0 may be read as 'not indicated'
                if (sz && width > m.size && m.kind != 2) { abortWith(0x06070012, "length-high"); return; }
                if (sz && width < m.size) { if (m.kind == 1 && !isAbort(resp[0])) { cov.hit("short-domain-write-accepted"); return; } abortWith(0x06070013, "length-low"); return; }
                if (exped && !sz && m.size > 4) { abortWith(0, "expedited-too-big"); return; }
                if (m.kind == 3) { if (exped) abortWith(0x06060000u + (uint32_t)plan.c("usercode", 0x10), "type-code"); return; }
                if (m.kind == 5) { uint32_t e = w.ospec(0, idx, sub)->val; if (exped) abortWith(e == CO_ERR_OBJ_RANGE ? 0x06090030u : e == CO_ERR_OBJ_MAP_TYPE ? 0x06040041u : e == CO_ERR_OBJ_MAP_LEN ? 0x06040042u : 0x06040043u, "type-reject-code"); return; }
                if (m.kind == 2) { abortWith(0, "string-write"); return; }
                if (hbc && idx == 0x1016 && sub >= 1 && sub <= 3 && cmd == 0x23) {   // heartbeat consumer entry: refused with 0604 0043h exactly when an entry monitors that node already (judged by the stored values)
                    uint32_t val = f.u32(4); uint8_t node = (uint8_t)(val >> 16); uint16_t time = (uint16_t)val; bool dup = false; for (int q = 1; q <= 3; q++) if ((hbBefore[q] & 0xFFFF) != 0 && (uint8_t)(hbBefore[q] >> 16) == node) dup = true;   /* the written entry itself counts (C11: 'a node that is already being monitored') */
                    if ((val >> 24) != 0 || node < 1 || node > 127) { cov.hit("hbcons-write-out-of-range"); return; }
                    if (time != 0 && dup) { abortWith(0x06040043, "hbcons-duplicate"); return; }
                    if (isAbort(resp[0])) { fail("req/valid-refused", "heartbeat consumer write refused with " + hex8(resp[0].u32(4)) + " although no entry monitors node " + std::to_string(node) + ctx); return; }
                    for (int q = 1; q <= 3; q++) if (w.raw(0, 0x1016, (uint8_t)q) != (q == sub ? (val & 0x7FFFFFu) : hbBefore[q])) { fail("req/download-confirmed-not-performed", "1016h:" + std::to_string(q) + " holds " + hex8(w.raw(0, 0x1016, (uint8_t)q)) + " after the confirmed write" + ctx); return; }
                    cov.hit("verdict-hbcons-accepted"); nontrivial = true; return;
                }
                if (isAbort(resp[0]) && plan.c("poolfull", 0) && idx == 0x1017) { cov.hit("heartbeat-time-refused-with-full-timer-pool"); return; }   // no slot for the producer: refusing is legitimate (and changed nothing, see above)
                if (isAbort(resp[0])) { fail("req/valid-refused", "valid download initiate refused with " + hex8(resp[0].u32(4)) + ctx); return; }
                if (resp[0].d[0] != 0x60) { fail("req/dn-init-cmd", resp[0].str() + ctx); return; }
                cov.hit("verdict-accepted"); return;
            }
            if (ccs == 2) {
                if (cmd != 0x40) { cov.hit("reserved-bits"); return; }
                uint32_t vd = lookupVerdict(false); if (vd) { abortWith(vd, vd == 0x06020000 ? "no-object" : vd == 0x06090011 ? "no-subindex" : "write-only"); return; }
                if (m.kind == 3) { abortWith(0x06060000u + (uint32_t)plan.c("usercode", 0x10), "type-code"); return; }
                if (m.kind == 5) { abortWith(0, "type-reject-read"); return; }
                if (isAbort(resp[0])) { fail("req/valid-refused", "valid upload initiate refused with " + hex8(resp[0].u32(4)) + ctx); return; }
                if ((resp[0].d[0] >> 5) != 2) { fail("req/up-init-cmd", resp[0].str() + ctx); return; }
                if (changed) fail("req/upload-changed-object", "an upload request changed object storage" + ctx);
                cov.hit("verdict-accepted"); return;
            }
            if (ccs == 0 || ccs == 3) { abortWith(0, ccs == 0 ? "segment-without-transfer" : "upload-segment-without-transfer"); return; }
            if (ccs == 6) {
                if (cmd & 1) { abortWith(0, "block-end-without-transfer"); return; }
                if (cmd & 0x18) { cov.hit("reserved-bits"); return; }
                uint32_t vd = lookupVerdict(true); if (vd) { abortWith(vd, vd == 0x06020000 ? "no-object" : vd == 0x06090011 ? "no-subindex" : "read-only"); return; }
                bool sz = cmd & 2; uint32_t width = sz ? f.u32(4) : 0; if (sz && width == 0) sz = false;
                if (sz && width > m.size && m.kind != 2) { abortWith(0x06070012, "length-high"); return; }
                if (sz && width < m.size) { if (!isAbort(resp[0])) { cov.hit("short-block-write-accepted"); return; } abortWith(0x06070013, "length-low"); return; }
                if (m.kind == 2 || m.kind == 3 || m.kind == 5) return;   // refusal may come at any later stage
                if (isAbort(resp[0])) { fail("req/valid-refused", "valid block download initiate refused with " + hex8(resp[0].u32(4)) + ctx); return; }
                if ((resp[0].d[0] & 0xFB) != 0xA0 || resp[0].d[4] < 1 || resp[0].d[4] > 127) { fail("req/blkdn-init-resp", resp[0].str() + ctx); return; }
                cov.hit("verdict-accepted"); return;
            }
            if (ccs == 5) {
                if ((cmd & 3) != 0) { abortWith(0, "block-upload-subcommand-without-transfer"); return; }
                if (cmd & 0x18) { cov.hit("reserved-bits"); return; }
                uint32_t vd = lookupVerdict(false); if (vd) { abortWith(vd, vd == 0x06020000 ? "no-object" : vd == 0x06090011 ? "no-subindex" : "write-only"); return; }
                if (f.d[4] < 1 || f.d[4] > 127) { abortWith(0x05040002, "block-size"); return; }
                if (m.kind == 3 || m.kind == 5) return;
                if (isAbort(resp[0])) { fail("req/valid-refused", "valid block upload initiate refused with " + hex8(resp[0].u32(4)) + ctx); return; }
                if ((resp[0].d[0] & 0xF9) != 0xC0) { fail("req/blkup-init-resp", resp[0].str() + ctx); return; }
                cov.hit("verdict-accepted"); return;
            }
            abortWith(0x05040001, "unknown-command"); return;
        }
        // ---- non-idle states
        cov.hit(std::string("nonidle-request-state-") + std::to_string(st));
        if (cmd == 0xA1 && (st == ST_BLK_UP_ACK || st == ST_BLK_UP_FIN || st == ST_BLK_UP_INIT)) { if (resp.size() > 1) fail("req/count-blkup-end", "responses to an end-of-block-upload confirmation" + ctx); return; }
        if (st == ST_BLK_DN || st == ST_BLK_DN_END && cmd != 0xC1 && (cmd & 0xE3) != 0xC1) { if (resp.size() > 1) fail("req/count-in-block", std::to_string(resp.size()) + " responses to a frame inside a block download" + ctx); return; }
        if (ccs == 3 && (cmd & 0x0F)) { cov.hit("reserved-bits"); if (resp.size() != 1) fail("req/count-nonidle", std::to_string(resp.size()) + " responses" + ctx); return; }
        if ((st == ST_BLK_UP_ACK || st == ST_BLK_UP_FIN) && ccs == 5 && (cmd & 3) == 2) { if (resp.size() > 127) fail("req/count-blkup", "more than 127 segments" + ctx); return; }
        if (st == ST_BLK_UP_FIN && cmd == 0xA1) { if (!resp.empty()) fail("req/count-blkup-end", "response to the end-of-block-upload confirmation" + ctx); return; }
        if (st == ST_BLK_UP_INIT && cmd == 0xA3) { if (resp.empty() || resp.size() > 127) fail("req/count-blkup-start", std::to_string(resp.size()) + " segments after start" + ctx); return; }
        if (st == ST_BLK_UP_ACK || st == ST_BLK_UP_FIN || st == ST_BLK_UP_INIT || st == ST_BLK_DN_END) { if (resp.size() != 1 && !(st == ST_BLK_DN_END)) fail("req/count-nonidle", std::to_string(resp.size()) + " responses" + ctx); else if (resp.size() > 1) fail("req/count-nonidle", std::to_string(resp.size()) + " responses" + ctx); return; }
        if (resp.size() != 1) { fail("req/count-nonidle", std::to_string(resp.size()) + " responses to a request while a segmented transfer is open" + ctx); return; }
        if (st == ST_SEG_DN && ccs == 0) { if (((cmd >> 4) & 1) != lp->s.toggle) abortWith(0x05030000, "toggle"); else if (isAbort(resp[0])) { /* content may be refused */ } else if ((resp[0].d[0] & 0xEF) != 0x20 || ((resp[0].d[0] >> 4) & 1) != lp->s.toggle) fail("req/dn-seg-resp", resp[0].str() + ctx); return; }
        if (st == ST_SEG_UP && ccs == 3) { if (((cmd >> 4) & 1) != lp->s.toggle) abortWith(0x05030000, "toggle"); else if ((resp[0].d[0] & 0xE0) != 0 || ((resp[0].d[0] >> 4) & 1) != lp->s.toggle) fail("req/up-seg-resp", resp[0].str() + ctx); return; }
        // anything else during an open segmented transfer: an abort (any code) or the correct start of the new transfer (checked above)
    }

    Verdict run() {
        setup();
        for (opi = 0; opi < (int)plan.ops.size() && v.ok; opi++) {
            const Op &o = plan.ops[(size_t)opi]; w.opIndex = (uint32_t)opi; cov.ops++;
            if (o.k == "begin") begin(o);
            else if (o.k == "step") step((int)o.arg(0), (int)o.arg(1, -1));
            else if (o.k == "enable2") { if (srv1late && !srv1on) { w.cur = 0; std::vector<uint8_t> img = w.image(0); CO_ERR e1 = CODictWrLong(&w.N(0)->Dict, CO_DEV(0x1201, 1), 0x640u + nodeId), e2 = CODictWrLong(&w.N(0)->Dict, CO_DEV(0x1201, 2), 0x5C0u + nodeId); if (e1 != CO_ERR_NONE || e2 != CO_ERR_NONE) { fail("enable2/refused", "switching the second SDO server on through the API was refused"); return v; } srv1on = true; (void)img; cov.hit("second-server-switched-on-through-the-api"); nontrivial = true; } }
            else if (o.k == "finish") { int guard = 6000; while (v.ok && L[o.arg(0) & 1].active && !L[o.arg(0) & 1].s.finished() && guard-- > 0) step((int)o.arg(0)); if (guard <= 0) fail("endless-transfer", "transfer did not end within 6000 client frames"); }
            else if (o.k == "req") req(o);
            else if (o.k == "toggle2") {   // the application switches the (idle) second server off and on again through the API, possibly while the first server is in a transfer; from then on both servers must still work independently
                bool busy1 = false; for (int k = 0; k < 2; k++) if (L[k].active && !L[k].s.finished() && L[k].s.srv == 1) busy1 = true;
                if (srv1late && srv1on && !busy1) { w.cur = 0; int which = (int)(o.arg(0) & 1) + 1; uint32_t id = (which == 1 ? 0x640u : 0x5C0u) + nodeId;
                    CO_ERR e1 = CODictWrLong(&w.N(0)->Dict, CO_DEV(0x1201, (uint8_t)which), id | 0x80000000u), e2 = CODictWrLong(&w.N(0)->Dict, CO_DEV(0x1201, (uint8_t)which), id);
                    if (e1 != CO_ERR_NONE || e2 != CO_ERR_NONE) { fail("enable2/refused", "switching the second SDO server off and on through the API was refused"); return v; } cov.hit("second-server-switched-off-and-on-again"); nontrivial = true; } }
            else if (o.k == "movesrv") {   // the application moves the (idle) second server to other identifiers through the API - without 'save': after a reset communication the stored ones are back
                bool busy1 = false; for (int k = 0; k < 2; k++) if (L[k].active && !L[k].s.finished() && L[k].s.srv == 1) busy1 = true;
                if (parasrv && !busy1) { w.cur = 0; int which = (int)(o.arg(0) & 1) + 1; uint32_t cur = (w.raw(0, 0x1201, (uint8_t)which) + nodeId) & 0x7FF, nw = ((which == 1 ? 0x640u : 0x5C0u) + 0x10u * (uint32_t)(o.arg(1) % 3) + nodeId) & 0x7FF;
                    CO_ERR e1 = CODictWrLong(&w.N(0)->Dict, CO_DEV(0x1201, (uint8_t)which), cur | 0x80000000u), e2 = CODictWrLong(&w.N(0)->Dict, CO_DEV(0x1201, (uint8_t)which), nw);
                    if (e1 != CO_ERR_NONE || e2 != CO_ERR_NONE) { fail("enable2/refused", "moving the second SDO server to another identifier through the API was refused"); return v; } cov.hit("second-server-moved-without-save"); nontrivial = true; } }
            else if (o.k == "savecom") { if (parasrv) { Frame f(0, 8, {0x23, 0x10, 0x10, 1, 0x73, 0x61, 0x76, 0x65}); garbage(0, f); cov.hit("communication-parameters-saved"); } }
            else if (o.k == "g") { Frame f(0, (uint8_t)o.arg(1, 8), o.b); if (o.arg(2, -1) >= 0) { w.s[0].sendFailAfter = (int)o.arg(2); cov.hit("F5-sdo-response-refused-by-driver"); } garbage((int)(o.arg(0) % nsrv), f); w.s[0].sendFailAfter = -1; }
            else if (o.k == "abort") { int srv = (int)(o.arg(0) % nsrv); Frame f(0, 8, {0x80, 0, 0, 0, 0, 0, 0, 0}); garbage(srv, f); }
            else if (o.k == "resetcom") { size_t m = w.mark(); w.rx(0, Frame(0, 2, {(uint8_t)(o.arg(0) ? 129 : 130), 0})); w.canproc(0); L[0].active = L[1].active = false; recovered[0] = recovered[1] = true; bool boot = false; for (auto &fr : w.txSince(m)) boot |= fr.id == 0x700u + nodeId; if (!boot) fail("reset/no-bootup", "no boot-up frame after NMT reset"); cov.hit("reset-communication"); }
            else if (o.k == "tick") w.tick(0, (uint64_t)o.arg(0));
            else if (o.k == "noise") { Frame f((uint32_t)o.arg(0), 8, o.b); size_t m = w.mark(); w.rx(0, f); w.canproc(0); (void)m; }
            else if (o.k == "read") { uint32_t val = 0; const SdoObj &ob = d.objs[(size_t)(o.arg(0) % (int64_t)d.objs.size())]; if (ob.kind == 0 && ob.size == 4) (void)CODictRdLong(&w.N(0)->Dict, CO_DEV(ob.idx, ob.sub), &val); }
            if (w.fatal) fail("fatal", "fatal error callback");
        }
        cov.runs++; if (nontrivial || true) { cov.nontrivial++; cov.traces.insert(trace.h); }
        v.loghash = w.log.h; if (verbose) fputs(w.text.c_str(), stdout);
        return v;
    }
};

const std::vector<int64_t> DOMSIZES = {1, 2, 3, 4, 5, 6, 7, 8, 9, 13, 14, 15, 20, 21, 27, 28, 29, 100, 882, 883, 888, 889, 890, 895, 896, 897, 1000, 1777, 1778, 1779, 2667, 4000};
static void gen_cfg(Rng &r, Plan &p, bool big = false) {
    p.cfg["nodeid"] = r.pick<int64_t>({1, 1, 2, 5, 64, 127}); p.cfg["oper"] = r.below(2);
    p.cfg["dom0"] = r.pick(DOMSIZES); p.cfg["dom1"] = r.pick(DOMSIZES); p.cfg["dom2"] = r.chance(1, 2) ? 4000 : r.range(1, 4000); p.cfg["dom3"] = r.range(1, 30); p.cfg["dom4"] = r.range(1, 30); p.cfg["dom5"] = r.range(1, 4);
    if (big && r.chance(1, 150)) p.cfg["dom2"] = r.pick<int64_t>({65536, 70000, 131080});   // a domain beyond 64 KiB (uploads only: block mode keeps the number of exchanges small)
    p.cfg["str0"] = r.range(1, 20); p.cfg["str1"] = r.pick<int64_t>({1, 4, 5, 7, 8, 100, 255, 256, 300});
}
static Op gen_begin(Rng &r, int k, bool upload, bool thorough) {
    // objects: index into SdoDict::objs (ints 0..13, domains 14..19, strings 20..21, user 22)
    int64_t obj = r.chance(1, 2) ? r.range(14, 19) : r.chance(1, 3) && upload ? r.range(20, 21) : r.chance(1, 8) ? 26 : r.range(0, 27);
    int64_t mode = r.below(3); int64_t len = r.chance(1, 2) ? 100000 : r.chance(1, 2) ? r.range(1, 30) : r.range(1, 4000);
    Op o("begin", {k, (int64_t)r.below(2), obj, upload ? 1 : 0, mode, (int64_t)r.chance(2, 3), (int64_t)r.below(2), len, (int64_t)r.below(1000), r.pick<int64_t>({127, 127, 1, 2, 3, 7, 64, 126, 100})});
    if (r.chance(1, 2)) {
        if (!upload) { int n = (int)r.range(1, thorough ? 300 : 140); o.b.assign((size_t)n, 0); int faults = (int)r.range(1, 4); for (int i = 0; i < faults; i++) o.b[r.below((uint32_t)n)] = (uint8_t)r.range(1, 2); }
        else { int n = (int)r.range(1, 6); for (int i = 0; i < n; i++) { o.b.push_back(r.pick<uint8_t>({255, 255, 0, 1, 2, 3, 63, 64, 126, 129, 130, 140, 190})); o.b.push_back(r.pick<uint8_t>({127, 127, 1, 2, 5, 64, 100})); } }
    }
    return o;
}
static Plan gen_xfer(Rng &r, bool thorough, bool upload) {
    Plan p; gen_cfg(r, p, upload); p.cfg["srv1late"] = r.chance(1, 6);
    if (p.cfg["dom2"] >= 65536) { Op o("begin", {0, (int64_t)r.below(2), 16, 1, 2, 1, (int64_t)r.below(2), 100000, (int64_t)r.below(1000), r.pick<int64_t>({127, 127, 64, 100})}); p.ops.push_back(o); p.ops.push_back(Op("finish", {0})); return p; }
    int sessions = (int)r.range(1, 3);
    for (int sidx = 0; sidx < sessions; sidx++) {
        bool two = r.chance(1, 3);
        Op first = gen_begin(r, 0, r.chance(1, 8) ? !upload : upload, thorough);
        if (r.chance(1, 4) && !(p.cfg["srv1late"] && first.a[1] == 1)) {   // an earlier client left this server after a transfer that the server itself aborted (toggle error, short middle segment) or that was simply abandoned - no client abort, no reset in between
            int64_t sv = first.a[1]; int var = (int)r.below(3); auto g = [&](std::initializer_list<uint8_t> b) { p.ops.push_back(Op("g", {sv, 8, -1}, std::vector<uint8_t>(b))); };
            if (var == 1) { uint32_t sz = (uint32_t)p.cfg["dom0"]; g({0x21, 0x00, 0x21, 0, (uint8_t)sz, (uint8_t)(sz >> 8), 0, 0}); int k = (int)r.below(3); for (int i = 0; i < k; i++) g({(uint8_t)((i & 1) << 4), 1, 2, 3, 4, 5, 6, 7}); g({(uint8_t)(((k & 1) << 4) | (uint8_t)(r.range(3, 6) << 1)), 9, 9, 9, 9, 9, 9, 9}); }
            else { uint16_t ix = r.pick<uint16_t>({0x2101, 0x2102, 0x2201, 0x2100}); g({0x40, (uint8_t)ix, (uint8_t)(ix >> 8), 0, 0, 0, 0, 0}); int k = (int)r.range(var == 0 ? 1 : 0, 4); for (int i = 0; i < k; i++) g({(uint8_t)(0x60 | (i & 1) << 4), 0, 0, 0, 0, 0, 0, 0}); if (var == 0) g({(uint8_t)(0x60 | ((k - 1) & 1) << 4), 0, 0, 0, 0, 0, 0, 0}); }
        }
        p.ops.push_back(first);
        if (two) p.ops.push_back(gen_begin(r, 1, r.chance(1, 3) ? !upload : upload, thorough));
        if (p.cfg["srv1late"] && sidx == 0) { /* first session on server 0, the switch-on somewhere inside it */ }
        bool faulty = r.chance(1, 4);     // F5: in a quarter of the sessions the CAN driver refuses some of the server's frames
        int n = (int)r.range(0, faulty ? 30 : 12);
        for (int i = 0; i < n; i++) { int c = (int)r.below(10); if (c < 7) p.ops.push_back(Op("step", {two ? (int64_t)r.below(2) : 0, faulty && r.chance(1, 4) ? (int64_t)r.below(5) : -1})); else if (c == 7 && p.cfg["srv1late"] && r.chance(1, 2)) p.ops.push_back(r.chance(2, 3) ? Op("enable2") : Op("toggle2", {(int64_t)r.below(2)})); else if (c == 7) p.ops.push_back(Op("tick", {r.range(1, 50)})); else if (c == 8) { std::vector<uint8_t> b; for (int j = 0; j < 8; j++) b.push_back(r.byte()); p.ops.push_back(Op("noise", {r.pick<int64_t>({0x80, 0x181, 0x701, 0x7FF, 0x5FF, 0x100, 0x7E6})}, b)); } else p.ops.push_back(Op("read", {(int64_t)r.below(14)})); }
        p.ops.push_back(Op("finish", {0})); if (two) p.ops.push_back(Op("finish", {1}));
        if (p.cfg["srv1late"] && r.chance(1, 2)) { p.ops.push_back(Op("enable2")); if (r.chance(1, 2)) p.ops.push_back(Op("toggle2", {(int64_t)r.below(2)})); }
    }
    return p;
}


// ---- C04 generator: [prefix that opens a transfer on a server]  request-under-test  (client abort)
static Frame gen_request(Rng &r, const SdoDict &d) {
    Frame f; f.dlc = 8;
    static const uint8_t cmds[] = {0x40, 0x40, 0x40, 0x23, 0x27, 0x2B, 0x2F, 0x22, 0x21, 0x20, 0x00, 0x10, 0x01, 0x0D, 0x60, 0x70, 0xC0, 0xC2, 0xC6, 0xC1, 0xA0, 0xA4, 0xA3, 0xA2, 0xA1, 0x80, 0xE0, 0x9F, 0x81, 0xFF};
    f.d[0] = r.chance(3, 4) ? cmds[r.below(sizeof cmds)] : r.byte();
    int k = (int)r.below(12);
    static const uint16_t others[] = {0x1000, 0x1001, 0x1018, 0x1200, 0x1017, 0x1400, 0x2FFF, 0x0000, 0xFFFF, 0x1201};
    if (r.chance(1, 12)) { uint16_t i = (uint16_t)(0x2500 + r.below(3)); f.d[0] = r.pick<uint8_t>({0x23, 0x23, 0x40, 0x2F, 0x21}); f.d[1] = (uint8_t)i; f.d[2] = (uint8_t)(i >> 8); f.d[3] = i == 0x2500 ? 1 : 0; for (int j = 4; j < 8; j++) f.d[j] = r.byte(); return f; }   // application-defined entries with active type functions
    if (r.chance(1, 8)) { uint16_t i = (uint16_t)(0x2300 + r.below(5)); f.d[0] = r.pick<uint8_t>({0x23, 0x23, 0x23, 0x40, 0x22, 0x21}); f.d[1] = (uint8_t)i; f.d[2] = (uint8_t)(i >> 8); f.d[3] = 0; for (int j = 4; j < 8; j++) f.d[j] = r.byte(); return f; }   // types that refuse the value
    if (k < 7) { const SdoObj &o = d.objs[r.below((uint32_t)d.objs.size())]; f.d[1] = (uint8_t)o.idx; f.d[2] = (uint8_t)(o.idx >> 8); f.d[3] = o.sub; }
    else if (k < 9) { const SdoObj &o = d.objs[r.below((uint32_t)d.objs.size())]; f.d[1] = (uint8_t)o.idx; f.d[2] = (uint8_t)(o.idx >> 8); f.d[3] = (uint8_t)(o.sub + 10 + r.below(200)); }
    else if (k < 11) { uint16_t i = others[r.below(10)]; f.d[1] = (uint8_t)i; f.d[2] = (uint8_t)(i >> 8); f.d[3] = (uint8_t)r.below(5); }
    else { f.d[1] = r.byte(); f.d[2] = r.byte(); f.d[3] = r.byte(); }
    int m = (int)r.below(4);
    if (m == 0) for (int i = 4; i < 8; i++) f.d[i] = r.byte();
    else if (m == 1) { uint32_t sz = r.pick<uint32_t>({0, 1, 2, 3, 4, 5, 7, 8, 20, 889, 4000, 4001, 0x10000}); f.d[4] = (uint8_t)sz; f.d[5] = (uint8_t)(sz >> 8); f.d[6] = (uint8_t)(sz >> 16); f.d[7] = (uint8_t)(sz >> 24); }
    else if (m == 2) { f.d[4] = r.pick<uint8_t>({0, 1, 64, 127, 128, 255}); }
    return f;
}
static Plan gen_req(Rng &r, bool thorough) {
    Plan p; gen_cfg(r, p); p.cfg["usercode"] = r.range(1, 0xFF); p.cfg["poolfull"] = r.chance(1, 6); p.cfg["appcmd"] = r.chance(1, 3);
    bool hbc = !p.cfg["poolfull"] && r.chance(1, 5); p.cfg["hbcons"] = hbc; if (hbc) for (int k = 1; k <= 3; k++) p.cfg["hbc" + std::to_string(k)] = r.chance(1, 2) ? 0 : (int64_t)((4 + k) << 16 | r.pick<int>({50, 100}));
    SdoDict d; d.build(p, 1);
    int rounds = (int)r.range(1, thorough ? 10 : 6);
    for (int i = 0; i < rounds; i++) {
        int64_t srv = r.below(2);
        if (r.chance(1, 2)) { Op b = gen_begin(r, 0, r.chance(1, 2), thorough); b.a[1] = srv; b.a[5] = 0; if (r.chance(2, 3)) b.a[2] = r.range(14, 16); b.b.clear(); p.ops.push_back(b); int n = (int)r.range(1, 6); for (int j = 0; j < n; j++) p.ops.push_back(Op("step", {0})); }
        Frame f = gen_request(r, d);
        if (p.cfg["poolfull"] && r.chance(1, 3)) { f = Frame(0, 8, {0x2B, 0x17, 0x10, 0, (uint8_t)r.pick<int>({0, 10, 100, 232}), (uint8_t)r.below(4), 0, 0}); }   // heartbeat producer time while no timer slot is free
        if (hbc && r.chance(2, 3)) { int extra = (int)r.below(3); for (int q = 0; q <= extra; q++) { f = Frame(0, 8, {0x23, 0x16, 0x10, (uint8_t)r.range(1, 3), (uint8_t)r.pick<int>({0, 50, 100}), 0, (uint8_t)r.pick<int>({5, 6, 7}), 0}); if (q < extra) { p.ops.push_back(Op("req", {srv}, std::vector<uint8_t>(f.d, f.d + 8))); p.ops.push_back(Op("abort", {srv})); } } }   // a run of heartbeat consumer writes: accepted, refused (node monitored elsewhere), switched off
        p.ops.push_back(Op("req", {srv}, std::vector<uint8_t>(f.d, f.d + 8)));
        p.ops.push_back(Op("abort", {srv}));
        if (p.cfg["poolfull"] && r.chance(1, 2)) { Frame g2(0, 8, {0x40, 0x17, 0x10, 0, 0, 0, 0, 0}); p.ops.push_back(Op("req", {srv}, std::vector<uint8_t>(g2.d, g2.d + 8))); p.ops.push_back(Op("abort", {srv})); }
    }
    return p;
}
// ---- C05 generator: arbitrary history, then [abort | reset communication], then a clean transfer
static Plan gen_wedge(Rng &r, bool thorough) {
    Plan p; gen_cfg(r, p); p.cfg["resetfail"] = 1; bool ps = r.chance(1, 6); p.cfg["parasrv"] = ps; p.cfg["appcmd"] = r.chance(1, 3);
    SdoDict d; d.build(p, 1);
    int64_t srv = ps ? 1 : r.below(2);
    int n = (int)r.range(0, thorough ? 120 : 50);
    for (int i = 0; i < n; i++) {
        int c = (int)r.below(10);
        if (c < 6) { Frame f = r.chance(3, 4) ? gen_request(r, d) : sdo_garbage(r, d); p.ops.push_back(Op("g", {r.chance(5, 6) ? srv : (int64_t)r.below(2), (int64_t)f.dlc, r.chance(1, 10) ? (int64_t)r.below(2) : -1}, std::vector<uint8_t>(f.d, f.d + 8))); }
        else if (c < 8) { Op b = gen_begin(r, 0, r.chance(1, 2), thorough); b.a[1] = srv; p.ops.push_back(b); int k = (int)r.range(0, 8); for (int j = 0; j < k; j++) p.ops.push_back(Op("step", {0, r.chance(1, 5) ? (int64_t)r.below(3) : -1})); if (r.chance(1, 2)) { Frame f = sdo_garbage(r, d); p.ops.push_back(Op("g", {srv, 8}, std::vector<uint8_t>(f.d, f.d + 8))); } }
        else if (c == 8 && r.chance(1, 2)) { uint8_t cmd = r.pick<uint8_t>({0xC2, 0xC6, 0xC0, 0x21, 0x23, 0x40, 0xA0}); p.ops.push_back(Op("g", {srv, 8, -1}, {cmd, 0x05, 0x23, 0, 4, 0, 0, 0})); }   // initiate on the entry whose type refuses the rewind
        else if (c == 8 && ps) p.ops.push_back(r.chance(3, 4) ? Op("movesrv", {(int64_t)r.below(2), (int64_t)r.below(3)}) : Op("savecom"));
        else if (c == 8) p.ops.push_back(Op("tick", {r.range(1, 20)}));
        else { Frame f = sdo_garbage(r, d); p.ops.push_back(Op("g", {(int64_t)r.below(2), (int64_t)f.dlc}, std::vector<uint8_t>(f.d, f.d + 8))); }
    }
    if (ps && r.chance(1, 2)) p.ops.push_back(Op("movesrv", {(int64_t)r.below(2), (int64_t)r.range(1, 2)}));
    if (r.chance(2, 3) && !(ps && r.chance(2, 3))) p.ops.push_back(Op("abort", {srv})); else p.ops.push_back(Op("resetcom", {(int64_t)r.chance(1, 4)}));
    int t = (int)r.range(1, 3);
    for (int i = 0; i < t; i++) {
        // T: a transfer that must succeed: readable/writable plain objects with a length the server has to accept
        bool up = r.chance(1, 2); int64_t obj = up ? r.pick<int64_t>({1, 2, 3, 4, 5, 6, 7, 10, 12, 14, 15, 16, 17, 19, 20, 21, 26}) : r.pick<int64_t>({1, 2, 3, 4, 5, 6, 7, 8, 9, 11, 13, 14, 15, 16, 18, 19, 26});
        Op b("begin", {0, srv, obj, up ? 1 : 0, (int64_t)r.below(3), 1, (int64_t)r.below(2), 100000, (int64_t)r.below(1000), r.pick<int64_t>({127, 1, 7, 64})});
        p.ops.push_back(b); p.ops.push_back(Op("finish", {0}));
    }
    return p;
}

Reg r02({"sdo_dn", "C02", [](Rng &r, bool t) { return gen_xfer(r, t, false); }, [](const Plan &p, Cov &c, bool vb) { XferRun x(p, c, vb); return x.run(); }, nullptr, nullptr});
Reg r03({"sdo_up", "C03", [](Rng &r, bool t) { return gen_xfer(r, t, true); }, [](const Plan &p, Cov &c, bool vb) { XferRun x(p, c, vb); return x.run(); }, nullptr, nullptr});

Reg r04({"sdo_req", "C04", gen_req, [](const Plan &p, Cov &c, bool vb) { XferRun x(p, c, vb); return x.run(); }, nullptr, nullptr});
Reg r05({"sdo_wedge", "C05", gen_wedge, [](const Plan &p, Cov &c, bool vb) { XferRun x(p, c, vb); x.wedge = true; return x.run(); }, nullptr, nullptr});

} // namespace
} // namespace sim
