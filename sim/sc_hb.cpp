// C10 (hbprod): heartbeat producer schedule; C11 (hbcons): heartbeat consumer monitor.
#include "node_env.hpp"

namespace sim {
namespace {

enum { M_INVALID = 0, M_INIT = 1, M_PREOP = 2, M_OP = 3, M_STOP = 4 };

// =====================================================================================================================
// C10
struct HbProdRun : NodeEnv {
    int m = M_INIT; uint64_t hbNext = 0; uint32_t hbPeriod = 0; bool hbOn = false;   // reference schedule
    std::vector<int> appTimers; uint8_t consNode[2];
    HbProdRun(const Plan &p, Cov &c, bool vb) : NodeEnv(p, c, vb) {}
    uint32_t tk(uint32_t ms) { return (uint32_t)((uint64_t)ms * freq / 1000); }
    static void appCb(void *) {}
    void arm(uint32_t ms) { uint32_t t = tk(ms); if (ms == 0 || t == 0) { hbOn = false; return; } hbOn = true; hbPeriod = t; hbNext = now() + t; }
    void build() {
        nodeId = (uint8_t)plan.c("nodeid", 1); if (nodeId < 1 || nodeId > 100) nodeId = 1; freq = (uint32_t)plan.c("freq", 1000);
        consNode[0] = (uint8_t)(nodeId + 1); consNode[1] = (uint8_t)(nodeId + 2);
        add_mandatory(specs, 1);
        add_typed(specs, T_SYNCID, 0x1005, 0, CO_OBJ_____RW, plan.c("syncprod", 0) ? 0x40000080u : 0x80u); add_typed(specs, T_SYNCCYCLE, 0x1006, 0, CO_OBJ_____RW, (uint32_t)plan.c("synccycle", 10000));
        add_typed(specs, T_HBCONS, 0x1016, 0, CO_OBJ_D___R_, 2); add_typed(specs, T_HBCONS, 0x1016, 1, CO_OBJ_____RW, (uint32_t)plan.c("cons0", 30), consNode[0]); add_typed(specs, T_HBCONS, 0x1016, 2, CO_OBJ_____RW, (uint32_t)plan.c("cons1", 0), consNode[1]);
        add_typed(specs, T_HBPROD, 0x1017, 0, CO_OBJ_____RW, (uint32_t)plan.c("hb", 10));
        add_tpdo(specs, 0, 0x40000180u + nodeId, 254, (uint16_t)plan.c("inh0", 0), (uint16_t)plan.c("ev0", 20), {CO_LINK(0x2100, 1, 8)}, true);
        add_tpdo(specs, 1, 0x40000280u + nodeId, 255, (uint16_t)plan.c("inh1", 50), (uint16_t)plan.c("ev1", 0), {CO_LINK(0x2100, 2, 16)}, true);
        add_u8(specs, 0x2100, 0, CO_OBJ_D___R_, 2); add_u8(specs, 0x2100, 1, CO_OBJ___APRW, 1); add_u16(specs, 0x2100, 2, CO_OBJ___APRW, 2);
        NodeCfg cfg; cfg.nodeId = nodeId; cfg.freq = freq; cfg.tmrNum = 32;
        w.build(0, cfg, specs); w.init(0);
        arm((uint32_t)plan.c("hb", 10));
        w.start(0); m = M_PREOP;         // initialised and started on the same tick
        if (CONodeGetErr(N()) != CO_ERR_NONE) fail("setup/node-error", "node reports an error after initialisation");
    }
    // compare heartbeat/boot-up frames of this operation with the reference schedule
    void checkHb(size_t mark, uint64_t from, uint64_t to, int bootupsExpected, const char *what) {
        std::vector<std::pair<uint64_t, uint8_t>> exp;
        if (hbOn) while (hbNext <= to) { if (hbNext > from || (hbNext == from && false)) { if (m == M_PREOP || m == M_OP || m == M_STOP) exp.push_back({hbNext, (uint8_t)(m == M_PREOP ? 127 : m == M_OP ? 5 : 4)}); } hbNext += hbPeriod; if (exp.size() > 5000) break; }
        std::vector<std::pair<uint64_t, uint8_t>> got; int boots = 0; bool collide = false; std::set<uint64_t> other;
        for (size_t i = mark; i < w.evs.size(); i++) { const Ev &e = w.evs[i]; if (e.kind != EV_TX && e.kind != EV_TXFAIL) continue; cov.frames_out++;
            if (e.f.id == 0x700u + nodeId) { if (e.f.dlc != 1) { fail("hb/dlc", "frame on the heartbeat COB-ID with DLC " + std::to_string(e.f.dlc)); return; } if (e.f.d[0] == 0) boots++; else got.push_back({e.tick, e.f.d[0]}); } else other.insert(e.tick); }
        for (auto &g : got) if (other.count(g.first)) collide = true;
        if (collide) { cov.hit("hb-tick-collides-with-other-timer-user"); nontrivial = true; }
        if (boots != bootupsExpected) { fail("hb/bootup-count", std::to_string(boots) + " boot-up frames during " + what); return; }
        if (got != exp) {
            size_t i = 0; while (i < got.size() && i < exp.size() && got[i] == exp[i]) i++;
            char b[256];
            if (i < got.size() && i < exp.size()) snprintf(b, sizeof b, "heartbeat #%zu: got (tick %llu, state %u), expected (tick %llu, state %u) during %s", i, (unsigned long long)got[i].first, got[i].second, (unsigned long long)exp[i].first, exp[i].second, what);
            else if (i < exp.size()) snprintf(b, sizeof b, "heartbeat due at tick %llu (state %u) missing during %s [%llu..%llu]; %zu sent, %zu expected", (unsigned long long)exp[i].first, exp[i].second, what, (unsigned long long)from, (unsigned long long)to, got.size(), exp.size());
            else snprintf(b, sizeof b, "unexpected heartbeat at tick %llu (state %u) during %s; reference schedule has %zu, next due %llu", (unsigned long long)got[i].first, got[i].second, what, exp.size(), (unsigned long long)(hbOn ? hbNext : 0));
            fail(i < got.size() && i < exp.size() ? (got[i].first != exp[i].first ? "hb/shifted" : "hb/state-byte") : i < exp.size() ? "hb/missing" : "hb/unexpected", b);
        }
        cov.hit("heartbeats-checked", exp.size());
    }
    void op(const Op &o) {
        size_t mk = w.mark(); uint64_t t0 = now(); int boots = 0; const std::string &k = o.k;
        if (k == "tick") { uint64_t n = (uint64_t)o.arg(0); if (hbOn && hbPeriod < 4 && n > 2000) n = 2000; w.tick(0, n); }
        else if (k == "nmt") { uint8_t cs = (uint8_t)o.arg(0); if (m == M_INVALID) return; deliver(Frame(0, 2, {cs, (uint8_t)(o.arg(1) ? nodeId : 0)}));
            if (cs == 1) m = M_OP; else if (cs == 2) m = M_STOP; else if (cs == 128) m = M_PREOP; else if (cs == 129 || cs == 130) { m = M_PREOP; boots = 1; arm(w.raw(0, 0x1017, 0)); cov.hit(hbOn ? "reset-while-running" : "reset-while-off"); } }
        else if (k == "hbwrite") { uint32_t ms = (uint32_t)o.arg(0); bool viaSdo = o.arg(1) != 0; if (ms && tk(ms) == 0) return;   // below one tick: not constrained
            if (viaSdo) { if (m != M_PREOP && m != M_OP) return; uint32_t ab = sdoWrite(0x1017, 0, ms, 2); if (ab != 0) { fail("hb/write-refused", "SDO write of " + std::to_string(ms) + " ms to 1017h refused with " + hex(ab)); return; } }
            else { w.cur = 0; CO_ERR e = CODictWrWord(&N()->Dict, CO_DEV(0x1017, 0), (uint16_t)ms); if (e != CO_ERR_NONE) { fail("hb/api-write-refused", "CODictWrWord(1017h) returned " + std::to_string((int)e)); return; } }
            cov.hit(hbOn ? "write-while-running" : "write-while-off"); arm(ms); if (w.raw(0, 0x1017, 0) != ms) fail("hb/stored-value", "1017h holds " + std::to_string(w.raw(0, 0x1017, 0)) + " after writing " + std::to_string(ms)); }
        else if (k == "cfg") { // SDO writes to other timer users' parameters (verdict not judged here)
            if (m != M_PREOP && m != M_OP) return; int which = (int)o.arg(0); uint32_t val = (uint32_t)o.arg(1);
            switch (which % 8) { case 0: sdoWrite(0x1800, 5, val & 0xFFFF, 2); break; case 1: sdoWrite(0x1801, 5, val & 0xFFFF, 2); break; case 2: sdoWrite(0x1800, 3, val & 0xFFFF, 2); break; case 3: sdoWrite(0x1006, 0, val, 4); break;
                                  case 4: sdoWrite(0x1005, 0, (val & 1) ? 0x40000080u : 0x80u, 4); break; case 5: sdoWrite(0x1016, 1, (uint32_t)consNode[0] << 16 | (val & 0xFF), 4); break; case 6: sdoWrite(0x1016, 2, (uint32_t)consNode[1] << 16 | (val & 0xFF), 4); break;
                                  default: sdoWrite(0x1800, 1, (val & 1) ? 0xC0000180u + nodeId : 0x40000180u + nodeId, 4); break; }
            cov.hit("other-user-reconfigured"); }
        else if (k == "trig") { w.cur = 0; if (o.arg(0) & 1) { uint8_t v8 = (uint8_t)o.arg(1); (void)CODictWrByte(&N()->Dict, CO_DEV(0x2100, 1), v8); } else COTPdoTrigPdo(N()->TPdo, (uint16_t)(o.arg(1) & 1)); }
        else if (k == "apptmr") { w.cur = 0; if (o.arg(0)) { int16_t id = COTmrCreate(&N()->Tmr, (uint32_t)o.arg(1), (uint32_t)o.arg(2), appCb, nullptr); if (id >= 0 && o.arg(2) != 0) appTimers.push_back(id); /* a one-shot handle dies with its expiry and is never deleted by the application */ } else if (!appTimers.empty()) { size_t i = (size_t)o.arg(1) % appTimers.size(); (void)COTmrDelete(&N()->Tmr, (int16_t)appTimers[i]); appTimers.erase(appTimers.begin() + (long)i); } }
        else if (k == "peerhb") { if (m == M_INVALID) return; deliver(Frame(0x700u + consNode[o.arg(0) & 1], 1, {(uint8_t)o.arg(1)})); }
        else if (k == "sendfail") { S().sendFail = (int)o.arg(0); cov.hit("F5-send-failure-armed"); }
        safety();
        checkHb(mk, t0, now(), boots, k.c_str());
        if (mode() != m && v.ok) fail("mode", "CONmtGetMode = " + std::to_string(mode()) + ", model " + std::to_string(m));
    }
    Verdict run() {
        build();
        { size_t mk = 0; int boots = 0; for (size_t i = mk; i < w.evs.size(); i++) if (w.evs[i].kind == EV_TX && w.evs[i].f.id == 0x700u + nodeId && w.evs[i].f.d[0] == 0) boots++; if (boots != 1) fail("hb/bootup-count", "boot-up frames at start: " + std::to_string(boots)); }
        for (opi = 0; opi < (int)plan.ops.size() && v.ok; opi++) {
            const Op &o = plan.ops[(size_t)opi]; w.opIndex = (uint32_t)opi; cov.ops++;
            op(o);
            Hash h; h.str(o.k); h.u64((uint64_t)m); h.u64(hbOn); h.u64(o.k == "cfg" ? (uint64_t)(o.arg(0) % 8) : 0); cov.pairs.insert(h.h); trace.u64(h.h); Hash s2; s2.u64((uint64_t)m); s2.u64(hbOn); s2.u64((uint64_t)w.tmrUsedActions(0)); cov.states.insert(s2.h);
        }
        nontrivial = nontrivial || plan.ops.size() > 3;
        finish(); return v;
    }
};

Plan gen_hbprod(Rng &r, bool thorough) {
    Plan p; uint32_t f = r.pick<uint32_t>({1000, 1000, 10000, 100, 2000, 500}); p.cfg["freq"] = f; int64_t unit = f >= 1000 ? 1 : 1000 / f;   // smallest ms value that is >= 1 tick
    auto ms = [&](std::initializer_list<int64_t> l) { return r.pick<int64_t>(l) * unit; };
    p.cfg["nodeid"] = r.pick<int64_t>({1, 5, 64, 100}); p.cfg["hb"] = r.chance(1, 6) ? 0 : ms({1, 2, 3, 5, 10, 20, 50}); p.cfg["syncprod"] = r.below(2); p.cfg["synccycle"] = ms({1, 2, 5, 10}) * 1000;
    p.cfg["cons0"] = ms({3, 5, 10, 30}); p.cfg["cons1"] = r.chance(1, 2) ? 0 : ms({4, 10}); p.cfg["ev0"] = r.chance(1, 4) ? 0 : ms({1, 2, 5, 10, 20}); p.cfg["inh0"] = r.chance(1, 2) ? 0 : ms({1, 3, 10}) * 10; p.cfg["ev1"] = r.chance(1, 2) ? 0 : ms({2, 10}); p.cfg["inh1"] = r.chance(1, 2) ? 0 : ms({2, 5}) * 10;
    int n = (int)r.range(3, thorough ? 50 : 25);
    for (int i = 0; i < n; i++) {
        int c = (int)r.below(20);
        if (c < 7) p.ops.push_back(Op("tick", {r.chance(1, 10) ? r.pick<int64_t>({1000, 5000, 65535}) : r.chance(1, 2) ? r.range(1, 5) : ms({1, 2, 3, 5, 7, 10, 20, 50}) * (int64_t)f / 1000}));
        else if (c < 9) p.ops.push_back(Op("nmt", {r.pick<int64_t>({1, 2, 128, 129, 130, 1, 1}), (int64_t)r.below(2)}));
        else if (c < 12) p.ops.push_back(Op("hbwrite", {r.chance(1, 5) ? 0 : r.chance(1, 10) ? 65535 : ms({1, 2, 3, 5, 10, 20, 50, 200}), (int64_t)r.below(2)}));
        else if (c < 15) p.ops.push_back(Op("cfg", {(int64_t)r.below(8), r.chance(1, 4) ? 0 : ms({1, 2, 3, 5, 10, 20})}));
        else if (c < 17) p.ops.push_back(Op("trig", {(int64_t)r.below(2), (int64_t)r.below(256)}));
        else if (c == 17) p.ops.push_back(Op("apptmr", {(int64_t)r.chance(2, 3), r.range(0, 20), r.chance(1, 2) ? 0 : r.range(1, 20)}));
        else if (c == 18) p.ops.push_back(Op("peerhb", {(int64_t)r.below(2), r.pick<int64_t>({5, 127, 4, 0})}));
        else p.ops.push_back(r.chance(1, 3) ? Op("sendfail", {r.range(1, 3)}) : Op("nmt", {1, 1}));
    }
    return p;
}
Reg r10({"hbprod", "C10", gen_hbprod, [](const Plan &p, Cov &c, bool vb) { HbProdRun x(p, c, vb); return x.run(); }, nullptr, nullptr});

} // namespace
} // namespace sim
