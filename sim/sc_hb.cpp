// C10 (hbprod): heartbeat producer schedule; C11 (hbcons): heartbeat consumer monitor.
#include "node_env.hpp"

namespace sim {
namespace {

enum { M_INVALID = 0, M_INIT = 1, M_PREOP = 2, M_OP = 3, M_STOP = 4 };

// =====================================================================================================================
// C10
struct HbProdRun : NodeEnv {
    int m = M_INIT; uint64_t hbNext = 0; uint32_t hbPeriod = 0; bool hbOn = false;   // reference schedule
    std::vector<int> appTimers; uint8_t consNode[2];
    HbProdRun(const Plan &p, Cov &c, bool vb) : NodeEnv(p, c, vb) {}
    uint32_t tk(uint32_t ms) { return (uint32_t)((uint64_t)ms * freq / 1000); }
    static void appCb(void *) {}
    static HbProdRun *self; int cbHb = 0; bool cbFired = false;
    static void csdoDone(CO_CSDO *, uint16_t, uint8_t, uint32_t) { HbProdRun *g = self; if (!g || !W) return; g->cbFired = true; (void)CODictWrWord(&W->S().node->Dict, CO_DEV(0x1017, 0), (uint16_t)g->cbHb); (void)CONodeGetErr(W->S().node); }
    void arm(uint32_t ms) { uint32_t t = tk(ms); if (ms == 0 || t == 0) { hbOn = false; return; } hbOn = true; hbPeriod = t; hbNext = now() + t; }
    void build() {
        nodeId = (uint8_t)plan.c("nodeid", 1); if (nodeId < 1 || nodeId > 100) nodeId = 1; freq = (uint32_t)plan.c("freq", 1000);
        consNode[0] = (uint8_t)(nodeId + 1); consNode[1] = (uint8_t)(nodeId + 2);
        add_mandatory(specs, 1);
        add_typed(specs, T_SYNCID, 0x1005, 0, CO_OBJ_____RW, plan.c("syncprod", 0) ? 0x40000080u : 0x80u); add_typed(specs, T_SYNCCYCLE, 0x1006, 0, CO_OBJ_____RW, (uint32_t)plan.c("synccycle", 10000));
        add_typed(specs, T_HBCONS, 0x1016, 0, CO_OBJ_D___R_, 2); add_typed(specs, T_HBCONS, 0x1016, 1, CO_OBJ_____RW, (uint32_t)plan.c("cons0", 30), consNode[0]); add_typed(specs, T_HBCONS, 0x1016, 2, CO_OBJ_____RW, (uint32_t)plan.c("cons1", 0), consNode[1]);
        add_typed(specs, T_HBPROD, 0x1017, 0, CO_OBJ_____RW, (uint32_t)plan.c("hb", 10));
        add_tpdo(specs, 0, 0x40000180u + nodeId, 254, (uint16_t)plan.c("inh0", 0), (uint16_t)plan.c("ev0", 20), {CO_LINK(0x2100, 1, 8)}, true);
        add_tpdo(specs, 1, 0x40000280u + nodeId, 255, (uint16_t)plan.c("inh1", 50), (uint16_t)plan.c("ev1", 0), {CO_LINK(0x2100, 2, 16)}, true);
        add_u8(specs, 0x2100, 0, CO_OBJ_D___R_, 2); add_u8(specs, 0x2100, 1, CO_OBJ___APRW, 1); add_u16(specs, 0x2100, 2, CO_OBJ___APRW, 2);
        add_u8(specs, 0x1280, 0, CO_OBJ_D___R_, 3); add_u32(specs, 0x1280, 1, CO_OBJ_D___R_, 0x600); add_u32(specs, 0x1280, 2, CO_OBJ_D___R_, 0x580); add_u8(specs, 0x1280, 3, CO_OBJ_D___R_, 120);   // an SDO client (server node 120 never answers): one more timer user
        NodeCfg cfg; cfg.nodeId = nodeId; cfg.freq = freq; cfg.tmrNum = 32;
        w.build(0, cfg, specs); w.init(0);
        arm((uint32_t)plan.c("hb", 10));
        if (plan.c("resetininit", 0)) { w.cur = 0; CONmtReset(&N()->Nmt, plan.c("resetininit", 0) == 1 ? CO_RESET_COM : CO_RESET_NODE); cov.hit("api-reset-in-init-state"); }   // a legal API use: reset between CONodeInit and CONodeStart (no boot-up then); the producer runs as configured afterwards
        w.start(0); m = M_PREOP;         // initialised and started on the same tick
        if (CONodeGetErr(N()) != CO_ERR_NONE) fail("setup/node-error", "node reports an error after initialisation");
    }
    // compare heartbeat/boot-up frames of this operation with the reference schedule
    void checkHb(size_t mark, uint64_t from, uint64_t to, int bootupsExpected, const char *what) {
        std::vector<std::pair<uint64_t, uint8_t>> exp;
        if (hbOn) while (hbNext <= to) { if (hbNext > from || (hbNext == from && false)) { if (m == M_PREOP || m == M_OP || m == M_STOP) exp.push_back({hbNext, (uint8_t)(m == M_PREOP ? 127 : m == M_OP ? 5 : 4)}); } hbNext += hbPeriod; if (exp.size() > 60000) break; }
        std::vector<std::pair<uint64_t, uint8_t>> got; int boots = 0; bool collide = false; std::set<uint64_t> other;
        for (size_t i = mark; i < w.evs.size(); i++) { const Ev &e = w.evs[i]; if (e.kind != EV_TX && e.kind != EV_TXFAIL) continue; cov.frames_out++;
            if (e.f.id == 0x700u + nodeId) { if (e.f.dlc != 1) { fail("hb/dlc", "frame on the heartbeat COB-ID with DLC " + std::to_string(e.f.dlc)); return; } if (e.f.d[0] == 0) boots++; else got.push_back({e.tick, e.f.d[0]}); } else other.insert(e.tick); }
        for (auto &g : got) if (other.count(g.first)) collide = true;
        if (collide) { cov.hit("hb-tick-collides-with-other-timer-user"); nontrivial = true; }
        if (boots != bootupsExpected) { fail("hb/bootup-count", std::to_string(boots) + " boot-up frames during " + what); return; }
        if (got != exp) {
            size_t i = 0; while (i < got.size() && i < exp.size() && got[i] == exp[i]) i++;
            char b[256];
            if (i < got.size() && i < exp.size()) snprintf(b, sizeof b, "heartbeat #%zu: got (tick %llu, state %u), expected (tick %llu, state %u) during %s", i, (unsigned long long)got[i].first, got[i].second, (unsigned long long)exp[i].first, exp[i].second, what);
            else if (i < exp.size()) snprintf(b, sizeof b, "heartbeat due at tick %llu (state %u) missing during %s [%llu..%llu]; %zu sent, %zu expected", (unsigned long long)exp[i].first, exp[i].second, what, (unsigned long long)from, (unsigned long long)to, got.size(), exp.size());
            else snprintf(b, sizeof b, "unexpected heartbeat at tick %llu (state %u) during %s; reference schedule has %zu, next due %llu", (unsigned long long)got[i].first, got[i].second, what, exp.size(), (unsigned long long)(hbOn ? hbNext : 0));
            fail(i < got.size() && i < exp.size() ? (got[i].first != exp[i].first ? "hb/shifted" : "hb/state-byte") : i < exp.size() ? "hb/missing" : "hb/unexpected", b);
        }
        cov.hit("heartbeats-checked", exp.size());
    }
    void op(const Op &o) {
        size_t mk = w.mark(); uint64_t t0 = now(); int boots = 0; const std::string &k = o.k;
        if (k == "tick") { uint64_t n = (uint64_t)o.arg(0); if (hbOn && hbPeriod < 4 && n > 20000) n = 20000; w.tick(0, n); }
        else if (k == "nmt") { uint8_t cs = (uint8_t)o.arg(0); if (m == M_INVALID) return; deliver(Frame(0, 2, {cs, (uint8_t)(o.arg(1) ? nodeId : 0)}));
            if (cs == 1) m = M_OP; else if (cs == 2) m = M_STOP; else if (cs == 128) m = M_PREOP; else if (cs == 129 || cs == 130) { m = M_PREOP; boots = 1; arm(w.raw(0, 0x1017, 0)); cov.hit(hbOn ? "reset-while-running" : "reset-while-off"); } }
        else if (k == "hbwrite") { uint32_t ms = (uint32_t)o.arg(0); bool viaSdo = o.arg(1) != 0; if (ms && tk(ms) == 0) return;   // below one tick: not constrained
            if (viaSdo) { if (m != M_PREOP && m != M_OP) return; uint32_t ab = sdoWrite(0x1017, 0, ms, 2); if (ab != 0) { fail("hb/write-refused", "SDO write of " + std::to_string(ms) + " ms to 1017h refused with " + hex(ab)); return; } }
            else { w.cur = 0; CO_ERR e = CODictWrWord(&N()->Dict, CO_DEV(0x1017, 0), (uint16_t)ms); if (e != CO_ERR_NONE) { fail("hb/api-write-refused", "CODictWrWord(1017h) returned " + std::to_string((int)e)); return; } }
            cov.hit(hbOn ? "write-while-running" : "write-while-off"); arm(ms); if (w.raw(0, 0x1017, 0) != ms) fail("hb/stored-value", "1017h holds " + std::to_string(w.raw(0, 0x1017, 0)) + " after writing " + std::to_string(ms)); }
        else if (k == "cfg") { // SDO writes to other timer users' parameters (verdict not judged here)
            if (m != M_PREOP && m != M_OP) return; int which = (int)o.arg(0); uint32_t val = (uint32_t)o.arg(1);
            switch (which % 8) { case 0: sdoWrite(0x1800, 5, val & 0xFFFF, 2); break; case 1: sdoWrite(0x1801, 5, val & 0xFFFF, 2); break; case 2: sdoWrite(0x1800, 3, val & 0xFFFF, 2); break; case 3: sdoWrite(0x1006, 0, val, 4); break;
                                  case 4: sdoWrite(0x1005, 0, (val & 1) ? 0x40000080u : 0x80u, 4); break; case 5: sdoWrite(0x1016, 1, (uint32_t)consNode[0] << 16 | (val & 0xFF), 4); break; case 6: sdoWrite(0x1016, 2, (uint32_t)consNode[1] << 16 | (val & 0xFF), 4); break;
                                  default: sdoWrite(0x1800, 1, (val & 1) ? 0xC0000180u + nodeId : 0x40000180u + nodeId, 4); break; }
            cov.hit("other-user-reconfigured"); }
        else if (k == "trig") { w.cur = 0; if (o.arg(0) & 1) { uint8_t v8 = (uint8_t)o.arg(1); (void)CODictWrByte(&N()->Dict, CO_DEV(0x2100, 1), v8); } else COTPdoTrigPdo(N()->TPdo, (uint16_t)(o.arg(1) & 1)); }
        else if (k == "apptmr") { w.cur = 0; if (o.arg(0)) { int16_t id = COTmrCreate(&N()->Tmr, (uint32_t)o.arg(1), (uint32_t)o.arg(2), appCb, nullptr); if (id >= 0 && o.arg(2) != 0) appTimers.push_back(id); /* a one-shot handle dies with its expiry and is never deleted by the application */ } else if (!appTimers.empty()) { size_t i = (size_t)o.arg(1) % appTimers.size(); (void)COTmrDelete(&N()->Tmr, (int16_t)appTimers[i]); appTimers.erase(appTimers.begin() + (long)i); } }
        else if (k == "csdoto") {   // a client transfer to a silent server times out; the application's completion callback rewrites the heartbeat producer time (1017h) from inside it
            uint32_t tmo = (uint32_t)o.arg(0) % 40 + 2, nhb = (uint32_t)o.arg(1); if (m != M_PREOP && m != M_OP) return; if (tk(tmo) == 0 || (nhb && tk(nhb) == 0)) return; if (hbOn && hbNext <= now() + tk(tmo) && (now() + tk(tmo) - hbNext) % hbPeriod == 0) return;   // a heartbeat due on the very tick of the time-out: order within the tick is free
            w.cur = 0; CO_CSDO *cs = COCSdoFind(N(), 0); if (!cs || cs->State != CO_CSDO_STATE_IDLE) return; self = this; cbHb = (int)nhb; cbFired = false; static uint8_t buf[4];
            if (COCSdoRequestUpload(cs, CO_DEV(0x2000, 1), buf, 4, csdoDone, tmo) != CO_ERR_NONE) { (void)CONodeGetErr(N()); return; }
            w.tick(0, tk(tmo)); safety(); checkHb(mk, t0, now(), 0, "time-out of the SDO client"); if (!v.ok) return;
            if (!cbFired) { fail("hb/harness-csdo-timeout", "the SDO client's time-out callback did not run when due"); return; }
            cov.hit(hbOn ? "1017-written-from-the-csdo-timeout-callback-while-running" : "1017-written-from-the-csdo-timeout-callback-while-off"); nontrivial = true; arm(nhb); if (w.raw(0, 0x1017, 0) != nhb) fail("hb/stored-value", "1017h holds " + std::to_string(w.raw(0, 0x1017, 0)) + " after the callback wrote " + std::to_string(nhb)); return; }
        else if (k == "peerhb") { if (m == M_INVALID) return; deliver(Frame(0x700u + consNode[o.arg(0) & 1], 1, {(uint8_t)o.arg(1)})); }
        else if (k == "sendfail") { S().sendFail = (int)o.arg(0); cov.hit("F5-send-failure-armed"); }
        safety();
        checkHb(mk, t0, now(), boots, k.c_str());
        if (mode() != m && v.ok) fail("mode", "CONmtGetMode = " + std::to_string(mode()) + ", model " + std::to_string(m));
    }
    Verdict run() {
        build();
        { size_t mk = 0; int boots = 0; for (size_t i = mk; i < w.evs.size(); i++) if (w.evs[i].kind == EV_TX && w.evs[i].f.id == 0x700u + nodeId && w.evs[i].f.d[0] == 0) boots++; if (boots != 1) fail("hb/bootup-count", "boot-up frames at start: " + std::to_string(boots)); }
        for (opi = 0; opi < (int)plan.ops.size() && v.ok; opi++) {
            const Op &o = plan.ops[(size_t)opi]; w.opIndex = (uint32_t)opi; cov.ops++;
            op(o);
            Hash h; h.str(o.k); h.u64((uint64_t)m); h.u64(hbOn); h.u64(o.k == "cfg" ? (uint64_t)(o.arg(0) % 8) : 0); cov.pairs.insert(h.h); trace.u64(h.h); Hash s2; s2.u64((uint64_t)m); s2.u64(hbOn); s2.u64((uint64_t)w.tmrUsedActions(0)); cov.states.insert(s2.h);
        }
        nontrivial = nontrivial || plan.ops.size() > 3;
        finish(); return v;
    }
};

Plan gen_hbprod(Rng &r, bool thorough) {
    Plan p; uint32_t f = r.pick<uint32_t>({1000, 1000, 10000, 100, 2000, 500}); p.cfg["freq"] = f; int64_t unit = f >= 1000 ? 1 : 1000 / f;   // smallest ms value that is >= 1 tick
    auto ms = [&](std::initializer_list<int64_t> l) { return r.pick<int64_t>(l) * unit; };
    p.cfg["resetininit"] = r.chance(1, 5) ? r.range(1, 2) : 0; p.cfg["nodeid"] = r.pick<int64_t>({1, 5, 64, 100}); p.cfg["hb"] = r.chance(1, 6) ? 0 : ms({1, 2, 3, 5, 10, 20, 50}); p.cfg["syncprod"] = r.below(2); p.cfg["synccycle"] = ms({1, 2, 5, 10}) * 1000;
    p.cfg["cons0"] = ms({3, 5, 10, 30}); p.cfg["cons1"] = r.chance(1, 2) ? 0 : ms({4, 10}); p.cfg["ev0"] = r.chance(1, 4) ? 0 : ms({1, 2, 5, 10, 20}); p.cfg["inh0"] = r.chance(1, 2) ? 0 : ms({1, 3, 10}) * 10; p.cfg["ev1"] = r.chance(1, 2) ? 0 : ms({2, 10}); p.cfg["inh1"] = r.chance(1, 2) ? 0 : ms({2, 5}) * 10;
    if (r.chance(1, 15)) {   // long heartbeat times on fast timer clocks (time * frequency beyond 32 bit): the producer alone, periods of millions of ticks
        f = r.pick<uint32_t>({100000, 100000, 80000, 65538, 1000000, 99999}); p.cfg["freq"] = f; p.cfg["hb"] = 0; p.cfg["syncprod"] = 0; p.cfg["cons0"] = 0; p.cfg["cons1"] = 0; p.cfg["ev0"] = 0; p.cfg["ev1"] = 0; p.cfg["inh0"] = 0; p.cfg["inh1"] = 0; p.cfg["resetininit"] = 0;
        int k = (int)r.range(1, 4); for (int i = 0; i < k; i++) { int64_t v = r.pick<int64_t>({65535, 50000, 42950, 42949, 40000, 60000, 1000}); p.ops.push_back(Op("hbwrite", {v, (int64_t)r.below(2)})); p.ops.push_back(Op("tick", {v * (int64_t)f / 1000 * r.range(1, 3) + r.range(0, 5)})); if (r.chance(1, 3)) p.ops.push_back(Op("nmt", {r.pick<int64_t>({1, 2, 128}), 0})); }
        return p; }
    int n = (int)r.range(3, thorough ? 50 : 25);
    for (int i = 0; i < n; i++) {
        int c = (int)r.below(20);
        if (c < 7) p.ops.push_back(Op("tick", {r.chance(1, 10) ? r.pick<int64_t>({1000, 5000, 65535}) : r.chance(1, 2) ? r.range(1, 5) : ms({1, 2, 3, 5, 7, 10, 20, 50}) * (int64_t)f / 1000}));
        else if (c < 9) p.ops.push_back(Op("nmt", {r.pick<int64_t>({1, 2, 128, 129, 130, 1, 1}), (int64_t)r.below(2)}));
        else if (c < 12) p.ops.push_back(Op("hbwrite", {r.chance(1, 5) ? 0 : r.chance(1, 10) ? 65535 : ms({1, 2, 3, 5, 10, 20, 50, 200}), (int64_t)r.below(2)}));
        else if (c < 15) p.ops.push_back(Op("cfg", {(int64_t)r.below(8), r.chance(1, 4) ? 0 : ms({1, 2, 3, 5, 10, 20})}));
        else if (c < 17) p.ops.push_back(Op("trig", {(int64_t)r.below(2), (int64_t)r.below(256)}));
        else if (c == 17) p.ops.push_back(Op("apptmr", {(int64_t)r.chance(2, 3), r.range(0, 20), r.chance(1, 2) ? 0 : r.range(1, 20)}));
        else if (c == 18 && r.chance(1, 2)) p.ops.push_back(Op("csdoto", {(int64_t)r.below(40), r.chance(1, 5) ? 0 : ms({1, 2, 3, 5, 10, 20, 50})}));
        else if (c == 18) p.ops.push_back(Op("peerhb", {(int64_t)r.below(2), r.pick<int64_t>({5, 127, 4, 0})}));
        else p.ops.push_back(r.chance(1, 3) ? Op("sendfail", {r.range(1, 3)}) : Op("nmt", {1, 1}));
    }
    return p;
}
HbProdRun *HbProdRun::self = nullptr;
Reg r10({"hbprod", "C10", gen_hbprod, [](const Plan &p, Cov &c, bool vb) { HbProdRun x(p, c, vb); return x.run(); }, nullptr, nullptr});

// =====================================================================================================================
// C11
struct HbConsRun : NodeEnv {
    struct Ent { uint8_t node = 0; uint16_t time = 0; bool active = false; uint64_t deadline = 0; uint32_t events = 0; int last = 0; };
    std::vector<Ent> ent; int m = M_PREOP; int nEnt = 1; bool allowBoot = false; int mcEntry = -1; uint8_t mcNode = 0; uint16_t mcTime = 0; bool mcReal = false, mcHooked = false;
    HbConsRun(const Plan &p, Cov &c, bool vb) : NodeEnv(p, c, vb) {}
    uint32_t tk(uint32_t ms) { return (uint32_t)((uint64_t)ms * freq / 1000); }
    int scriptEntry = -1, scriptReal = -1; uint8_t scriptNode = 0;   // application script for CONmtHbConsEvent (model side / real side)
    Ent *configured(uint8_t node) { for (auto &e : ent) if (e.time > 0 && e.node == node) return &e; return nullptr; }
    static int decode(uint8_t s) { return s == 0 ? 1 : s == 127 ? 2 : s == 5 ? 3 : s == 4 ? 4 : 0; }
    void build() {
        nodeId = 1; freq = (uint32_t)plan.c("freq", 1000); nEnt = (int)plan.c("entries", 2); if (nEnt < 1) nEnt = 1; if (nEnt > 4) nEnt = 4;
        add_mandatory(specs, 1);
        add_typed(specs, T_HBCONS, 0x1016, 0, CO_OBJ_D___R_, (uint32_t)nEnt);
        for (int i = 0; i < nEnt; i++) { Ent e; e.node = (uint8_t)plan.c("node" + std::to_string(i), 10 + i); e.time = (uint16_t)plan.c("time" + std::to_string(i), 20); for (auto &x : ent) if (x.node == e.node && x.time > 0 && e.time > 0) e.time = 0; ent.push_back(e); add_typed(specs, T_HBCONS, 0x1016, (uint8_t)(i + 1), CO_OBJ_____RW, e.time, e.node); }
        add_typed(specs, T_HBPROD, 0x1017, 0, CO_OBJ_____RW, 0);
        // 'tight': the timer pool holds exactly one slot per consumer entry - all the monitors can ever need at once (F15: no spare slot)
        NodeCfg cfg; cfg.nodeId = nodeId; cfg.freq = freq; cfg.tmrNum = plan.c("tight", 0) ? (uint16_t)nEnt : 16; if (plan.c("tight", 0)) cov.hit("F15-timer-pool-without-spare-slot");
        w.build(0, cfg, specs); w.init(0); w.start(0);
        if (CONodeGetErr(N()) != CO_ERR_NONE) fail("setup/node-error", "node reports an error after initialisation");
        w.onHbConsEvent = [this](uint8_t node) { if (scriptReal < 0) return; uint32_t cur = w.raw(0, 0x1016, (uint8_t)(scriptReal + 1)); if ((uint8_t)(cur >> 16) != node || (cur & 0xFFFF) == 0) return; int n = scriptReal; scriptReal = -1; (void)CODictWrLong(&N()->Dict, CO_DEV(0x1016, (uint8_t)(n + 1)), (uint32_t)scriptNode << 16 | (cur & 0xFFFF)); (void)CONodeGetErr(N()); };
    }
    // events and change callbacks of one operation against the model
    void checkCallbacks(size_t mark, const std::vector<std::pair<uint64_t, uint8_t>> &expEvents, const std::vector<std::pair<uint8_t, int>> &expChanges, const char *what) {
        std::vector<std::pair<uint64_t, uint8_t>> gotE; std::vector<std::pair<uint8_t, int>> gotC;
        for (size_t i = mark; i < w.evs.size(); i++) { const Ev &e = w.evs[i]; if (e.kind == EV_HBEVENT) gotE.push_back({e.tick, (uint8_t)e.a}); else if (e.kind == EV_HBCHANGE) gotC.push_back({(uint8_t)e.a, (int)e.b}); else if (e.kind == EV_TX && e.f.id != 0x581 && !(allowBoot && e.f.id == 0x700u + nodeId)) fail("hbcons/tx", "unexpected transmission: " + e.f.str()); }
        auto se = expEvents; std::sort(se.begin(), se.end()); std::sort(gotE.begin(), gotE.end());
        if (gotE != se) {
            size_t i = 0; while (i < gotE.size() && i < se.size() && gotE[i] == se[i]) i++; char b[256];
            if (i < gotE.size() && (i >= se.size() || gotE[i] < se[i])) { snprintf(b, sizeof b, "spurious heartbeat event for node %u at tick %llu during %s (%zu signalled, %zu expected)", gotE[i].second, (unsigned long long)gotE[i].first, what, gotE.size(), se.size()); fail("hbcons/spurious-event", b); }
            else { snprintf(b, sizeof b, "heartbeat event for node %u due at tick %llu not signalled during %s (%zu signalled, %zu expected)", se[i].second, (unsigned long long)se[i].first, what, gotE.size(), se.size()); fail("hbcons/missing-event", b); }
            return;
        }
        if (gotC != expChanges) fail("hbcons/change-callback", std::string("state-change notifications differ from the model during ") + what + ": got " + std::to_string(gotC.size()) + ", expected " + std::to_string(expChanges.size()));
    }
    void op(const Op &o) {
        size_t mk = w.mark(); const std::string &k = o.k; std::vector<std::pair<uint64_t, uint8_t>> ee; std::vector<std::pair<uint8_t, int>> ec;
        if (k == "tick") {
            uint64_t n = (uint64_t)o.arg(0); uint64_t to = now() + n; bool capped = false;
            // expected events up to 'to'
            for (auto &e : ent) if (e.time > 0 && e.active) { uint32_t t = tk(e.time); if (t == 0) continue; int guard = 0; while (e.deadline <= to) { ee.push_back({e.deadline, e.node}); if (e.events < 255) e.events++; else cov.hit("event-counter-saturated"); e.deadline += t; if (++guard > 12000) { capped = true; break; }
                    // the application's event callback re-points this entry to another node (armed by 'evscript'): same rules as an SDO write - refused if that node is monitored already, else the entry waits for the new node's first heartbeat
                    if (scriptEntry == (int)(&e - &ent[0])) { scriptEntry = -1; cov.hit("entry-rewritten-from-inside-the-event-callback"); nontrivial = true; if (!configured(scriptNode)) { uint16_t tm = e.time; e = Ent(); e.node = scriptNode; e.time = tm; break; } } } }
            if (capped) { fail("harness/too-many-events", "plan generates more than 3000 events in one tick operation"); return; }
            w.tick(0, n);
            if (now() != to) { fail("harness/tick-cap", "tick operation ended early"); return; }
            cov.hit("events-expected", ee.size());
        }
        else if (k == "hb") {
            uint8_t node = (uint8_t)o.arg(0), st = (uint8_t)o.arg(1); Ent *e = configured(node);
            Fx fx = deliver(Frame(0x700u + node, 1, {st}));
            if (e && tk(e->time) > 0) { if (fx.appRx) fail("hbcons/consumed-and-passed-on", "heartbeat of a monitored node also handed to the application callback"); int d = decode(st); if (d != e->last) ec.push_back({node, d}); e->last = d; if (!e->active) cov.hit("monitoring-started"); e->active = true; e->deadline = now() + tk(e->time); }
            else if (!e) { if (m == M_STOP ? fx.appRx > 1 : fx.appRx != 1) fail("hbcons/unmonitored-not-passed-on", "heartbeat of an unmonitored node handed to the application callback " + std::to_string(fx.appRx) + " times"); cov.hit("hb-unmonitored-node"); }
        }
        else if (k == "xhb") {   // a frame that only *looks* like a heartbeat in its low 11 bits: 29 bit identifier, flag bits above bit 10 - nobody's heartbeat, it belongs to the application
            static const uint32_t hi[] = {0x18FEF000u, 0x0CF00000u, 0x40000000u, 0x20000000u, 0x00000800u, 0x1FFFF800u}; uint8_t node = (uint8_t)o.arg(0), st = (uint8_t)o.arg(1);
            Fx fx = deliver(Frame(hi[(size_t)o.arg(2) % 6] | 0x700u | node, 1, {st})); cov.hit("frame-with-heartbeat-like-low-bits"); if (configured(node)) { cov.hit("heartbeat-like-frame-for-a-monitored-node"); nontrivial = true; }
            if (m == M_STOP ? fx.appRx > 1 : fx.appRx != 1) fail("hbcons/foreign-frame-consumed", "frame " + hex(hi[(size_t)o.arg(2) % 6] | 0x700u | node) + " handed to the application callback " + std::to_string(fx.appRx) + " times (it is no heartbeat)");
        }
        else if (k == "write") {
            if (m == M_STOP) return;
            int n = (int)(o.arg(0) % nEnt); uint8_t node = (uint8_t)o.arg(1); uint16_t time = (uint16_t)o.arg(2); if (node < 1 || node > 127) node = 1; if (time && tk(time) == 0) return;
            std::vector<Ent> before = ent; Ent *mon = configured(node);
            const char *cls = time == 0 ? (ent[(size_t)n].time > 0 ? "write-zero-active-entry" : mon ? "write-zero-free-entry-while-monitored-elsewhere" : "write-zero-free-entry") : mon ? (mon == &ent[(size_t)n] ? "write-same-node-same-entry" : "write-dup-node-other-entry") : ent[(size_t)n].time > 0 ? "repoint-active-entry" : "configure-free-entry";
            cov.hit(cls); nontrivial = true;
            uint32_t ab = sdoWrite(0x1016, (uint8_t)(n + 1), (uint32_t)node << 16 | time, 4);
            if (time > 0 && mon) { if (ab != 0x06040043) fail("hbcons/dup-not-refused", std::string(cls) + ": write of (node " + std::to_string(node) + ", time " + std::to_string(time) + ") to entry " + std::to_string(n + 1) + " answered " + hex(ab) + ", expected abort 06040043"); }
            else { if (ab != 0) { fail("hbcons/write-refused", std::string(cls) + ": write of (node " + std::to_string(node) + ", time " + std::to_string(time) + ") to entry " + std::to_string(n + 1) + " refused with " + hex(ab)); return; } Ent &e = ent[(size_t)n]; e = Ent(); e.node = node; e.time = time; }
            // stored values of all entries
            for (int i = 0; i < nEnt && v.ok; i++) { uint32_t st = w.raw(0, 0x1016, (uint8_t)(i + 1)); uint32_t ex = (uint32_t)ent[(size_t)i].node << 16 | ent[(size_t)i].time; if (st != ex) fail("hbcons/stored-value", "1016h:" + std::to_string(i + 1) + " holds " + hex(st) + ", model " + hex(ex) + " after " + cls); }
        }
        else if (k == "evscript") { int n = (int)(o.arg(0) % nEnt); uint8_t node = (uint8_t)o.arg(1); if (node < 1 || node > 127 || ent[(size_t)n].time == 0) return; scriptEntry = n; scriptNode = node; scriptReal = n; return; }
        else if (k == "events") { uint8_t node = (uint8_t)o.arg(0); Ent *e = configured(node); w.cur = 0; int16_t r = CONmtGetHbEvents(&N()->Nmt, node); int exp = e ? (int)e->events : -1; if (r != exp) fail("hbcons/event-counter", "CONmtGetHbEvents(" + std::to_string(node) + ") = " + std::to_string(r) + ", model " + std::to_string(exp)); if (e) { if (e->events) cov.hit("counter-read-nonzero"); e->events = 0; } }
        else if (k == "last") { uint8_t node = (uint8_t)o.arg(0); Ent *e = configured(node); w.cur = 0; int r = (int)CONmtLastHbState(&N()->Nmt, node); int exp = e ? e->last : 0; if (r != exp) fail("hbcons/last-state", "CONmtLastHbState(" + std::to_string(node) + ") = " + std::to_string(r) + ", model " + std::to_string(exp)); }
        else if (k == "readback") { if (m == M_STOP) return; int n = (int)(o.arg(0) % nEnt); uint32_t val = 0; uint32_t ab = sdoRead(0x1016, (uint8_t)(n + 1), val); uint32_t ex = (uint32_t)ent[(size_t)n].node << 16 | ent[(size_t)n].time; if (ab != 0 || val != ex) fail("hbcons/readback", "1016h:" + std::to_string(n + 1) + " reads " + hex(val) + " (abort " + hex(ab) + "), model " + hex(ex)); }
        else if (k == "mcscript") {   // application code in CONmtModeChange(PRE-OPERATIONAL): (re)configures a consumer entry through the API when the node arrives there - after a reset that is after the consumers were set up again
            int n = (int)(o.arg(0) % nEnt); uint8_t node = (uint8_t)o.arg(1); uint16_t time = (uint16_t)o.arg(2); if (node < 1 || node > 127 || (time && tk(time) == 0)) return; mcEntry = n; mcNode = node; mcTime = time; mcReal = true;
            if (!mcHooked) { mcHooked = true; w.onModeChange = [this](int mode) { if (!mcReal || mode != CO_PREOP) return; mcReal = false; (void)CODictWrLong(&N()->Dict, CO_DEV(0x1016, (uint8_t)(mcEntry + 1)), (uint32_t)mcNode << 16 | mcTime); (void)CONodeGetErr(N()); }; } return; }
        else if (k == "nmt") { uint8_t cs = (uint8_t)o.arg(0); int mBefore = m; deliver(Frame(0, 2, {cs, 0})); if (cs == 1) m = M_OP; else if (cs == 2) m = M_STOP; else if (cs == 128) m = M_PREOP;
            // reset communication / node: every consumer starts over from its stored (node, time): not monitoring until the first heartbeat, counter 0, no state known, no timer left behind
            else if (cs == 129 || cs == 130) { m = M_PREOP; allowBoot = true; for (auto &e : ent) { if (e.active) { cov.hit("reset-while-monitoring"); nontrivial = true; } e.active = false; e.events = 0; e.last = 0; e.deadline = 0; } scriptEntry = -1; scriptReal = -1;
                int used = w.tmrUsedActions(0); if (used != 0) { fail("hbcons/timer-leak", std::to_string(used) + " timer slots in use right after a reset (no heartbeat received since)"); return; } }
            if (mcEntry >= 0 && (cs == 129 || cs == 130 || (cs == 128 && mBefore != M_PREOP))) {   // the callback ran (last thing of the reset / of the transition): same rules as an SDO write
                int n = mcEntry; mcEntry = -1; cov.hit(cs == 128 ? "entry-written-from-the-mode-change-callback" : "entry-written-from-the-mode-change-callback-of-a-reset"); nontrivial = true;
                if (!(mcTime > 0 && configured(mcNode))) { Ent &e = ent[(size_t)n]; e = Ent(); e.node = mcNode; e.time = mcTime; }
                for (int i = 0; i < nEnt && v.ok; i++) { uint32_t st = w.raw(0, 0x1016, (uint8_t)(i + 1)); uint32_t ex = (uint32_t)ent[(size_t)i].node << 16 | ent[(size_t)i].time; if (st != ex) fail("hbcons/stored-value", "1016h:" + std::to_string(i + 1) + " holds " + hex(st) + ", model " + hex(ex) + " after the write from the mode-change callback"); } } }
        safety();
        if (v.ok) checkCallbacks(mk, ee, ec, k.c_str());
        allowBoot = false;
    }
    Verdict run() {
        build();
        for (opi = 0; opi < (int)plan.ops.size() && v.ok; opi++) {
            const Op &o = plan.ops[(size_t)opi]; w.opIndex = (uint32_t)opi; cov.ops++;
            op(o);
            Hash h; h.str(o.k); for (auto &e : ent) { h.u64(e.time > 0); h.u64(e.active); h.u64(e.events > 0); } if (o.k == "write") { h.u64((uint64_t)(o.arg(0) % nEnt)); h.u64(o.arg(2) == 0); } cov.pairs.insert(h.h); trace.u64(h.h);
            Hash s2; for (auto &e : ent) { s2.u64(e.time > 0); s2.u64(e.active); } s2.u64((uint64_t)w.tmrUsedActions(0)); cov.states.insert(s2.h);
        }
        // no timer slot may be held by anything but active monitors
        if (v.ok) { int act = 0; for (auto &e : ent) if (e.time > 0 && e.active) act++; if (w.tmrUsedActions(0) != act) fail("hbcons/timer-leak", std::to_string(w.tmrUsedActions(0)) + " timer slots in use, " + std::to_string(act) + " active monitors"); }
        finish(); return v;
    }
};

Plan gen_hbcons(Rng &r, bool thorough) {
    Plan p; uint32_t f = r.pick<uint32_t>({1000, 1000, 2000, 10000}); p.cfg["freq"] = f; int ne = (int)r.range(1, 4); p.cfg["entries"] = ne; p.cfg["tight"] = r.chance(1, 3);
    std::vector<int64_t> nodes = {10, 11, 12, 13, 20};
    for (int i = 0; i < ne; i++) { p.cfg["node" + std::to_string(i)] = nodes[(size_t)i]; p.cfg["time" + std::to_string(i)] = r.chance(1, 3) ? 0 : r.pick<int64_t>({5, 10, 20, 50}); }
    int n = (int)r.range(3, thorough ? 60 : 30);
    auto anyNode = [&]() { return nodes[r.below(r.chance(4, 5) ? (uint32_t)std::min(ne + 1, 5) : 5)]; };
    for (int i = 0; i < n; i++) {
        int c = (int)r.below(20);
        if (c < 6 && r.chance(1, 12)) p.ops.push_back(Op("xhb", {anyNode(), r.pick<int64_t>({5, 127, 4, 0}), (int64_t)r.below(6)}));
        else if (c < 6) p.ops.push_back(Op("hb", {anyNode(), r.pick<int64_t>({5, 5, 5, 127, 4, 0, 3})}));
        else if (c < 12) { int64_t T = r.pick<int64_t>({5, 10, 20, 50}) * (int64_t)f / 1000; p.ops.push_back(Op("tick", {r.chance(1, 15) ? 300 * T : r.pick<int64_t>({1, T - 1, T, T + 1, 2 * T, T / 2, 3 * T + 1})})); }
        else if (c < 16) p.ops.push_back(Op("write", {(int64_t)r.below((uint32_t)ne), anyNode(), r.chance(1, 3) ? 0 : r.pick<int64_t>({5, 10, 20, 50})}));
        else if (c == 16 && r.chance(1, 4)) { p.ops.push_back(Op("mcscript", {(int64_t)r.below((uint32_t)ne), anyNode(), r.chance(1, 4) ? 0 : r.pick<int64_t>({5, 10, 20, 50})})); if (r.chance(2, 3)) p.ops.push_back(Op("nmt", {r.pick<int64_t>({129, 130, 128, 130})})); }
        else if (c == 16 && r.chance(1, 3)) p.ops.push_back(Op("evscript", {(int64_t)r.below((uint32_t)ne), anyNode()}));
        else if (c == 16) p.ops.push_back(Op("events", {anyNode()}));
        else if (c == 17) p.ops.push_back(Op("last", {anyNode()}));
        else if (c == 18) p.ops.push_back(Op("readback", {(int64_t)r.below((uint32_t)ne)}));
        else p.ops.push_back(Op("nmt", {r.pick<int64_t>({1, 2, 128, 128, 129, 130})}));
    }
    return p;
}
Reg r11({"hbcons", "C11", gen_hbcons, [](const Plan &p, Cov &c, bool vb) { HbConsRun x(p, c, vb); return x.run(); }, nullptr, nullptr});

} // namespace
} // namespace sim
