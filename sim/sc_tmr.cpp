// C07 (tmr_seq) and C08 (tmr_irq): the timer module on the simulated hardware timer, lockstep reference model.
#include "world.hpp"

namespace sim {
namespace {

enum AState { A_PENDING, A_ELAPSED, A_FREED };
struct MAct { int id; uint64_t due; uint32_t period; int script; int64_t arg; AState st; bool running = false; uint64_t runs = 0; bool cancelMaybe = false; };

struct TmrRun {
    World w; const Plan &plan; Cov &cov; Verdict v; bool preemptive; bool verbose;
    std::vector<MAct> acts;             // every action ever created (index = handle)
    std::vector<int> liveById;          // id -> handle or -1
    uint32_t maxN = 0; int opi = 0; std::vector<uint32_t> ppPerOp;
    bool inProcess = false; int running = -1; int limbo = 0;   // limbo: actions cancelled while detached; their slots return when the running COTmrProcess reaches them   // handle of action whose callback runs
    Hash trace; bool nontrivial = false;

    TmrRun(const Plan &p, Cov &c, bool pre, bool vb) : plan(p), cov(c), preemptive(pre), verbose(vb) {}
    Slot &S() { return w.s[0]; }
    CO_TMR *T() { return &S().node->Tmr; }
    void fail(const std::string &rule, const std::string &d) { v.fail(plan.property + "/" + rule, d, opi); }

    void promote() { for (auto &a : acts) if (a.st == A_PENDING && a.due <= S().now) a.st = A_ELAPSED; }
    int used() { int n = 0; for (auto &a : acts) if (a.st != A_FREED) n++; return n; }

    // ---- conservation walk through the public structure (C08 a)
    void conservation(const char *where, bool quiescent = true) {
        CO_TMR *t = T(); std::set<void *> seen; uint32_t fe = 0, ue = 0, ee = 0, fa = 0, la = 0; bool bad = false;
        auto walkEv = [&](CO_TMR_TIME *e, uint32_t &n, bool countActs) { for (; e; e = e->Next) { if (!seen.insert(e).second || n > maxN) { bad = true; return; } n++; if (countActs) for (CO_TMR_ACTION *a = e->Action; a; a = a->Next) { if (!seen.insert(a).second || la > maxN) { bad = true; return; } la++; } } };
        walkEv(t->Free, fe, false); walkEv(t->Use, ue, true); walkEv(t->Elapsed, ee, true);
        for (CO_TMR_ACTION *a = t->Acts; a; a = a->Next) { if (!seen.insert(a).second || fa > maxN) { bad = true; break; } fa++; }
        if (bad) { fail("conserve/cycle-or-shared-slot", std::string("pool walk found a slot twice at ") + where); return; }
        if (fe + ue + ee != maxN) { char b[160]; snprintf(b, sizeof b, "events free=%u used=%u elapsed=%u != capacity %u at %s", fe, ue, ee, maxN, where); fail("conserve/events", b); return; }
        uint32_t priv = maxN - fa - la; // actions privately held by a running COTmrProcess
        if (fa + la > maxN) { fail("conserve/actions", "more action slots than capacity"); return; }
        if (!inProcess && quiescent && priv != 0) { char b[160]; snprintf(b, sizeof b, "actions free=%u queued=%u capacity=%u outside processing at %s", fa, la, maxN, where); fail("conserve/actions", b); return; }
        // model agreement on occupancy (outside processing the count is exact)
        if (!inProcess && quiescent) { promote(); if ((int)la != used()) { char b[160]; snprintf(b, sizeof b, "queued actions %u, model %d at %s", la, used(), where); fail("conserve/occupancy", b); } }
    }

    // ---- API wrappers (used by ops and by callback scripts)
    static void cb(void *arg);
    int do_create(uint32_t start, uint32_t cycle, int script, int64_t sarg) {
        promote();
        int before = used();
        // classify insert position for reach
        { uint32_t st = start ? start : cycle; uint64_t due = S().now + st; std::vector<uint64_t> d; for (auto &a : acts) if (a.st == A_PENDING) d.push_back(a.due); std::sort(d.begin(), d.end()); d.erase(std::unique(d.begin(), d.end()), d.end());
          const char *cls = d.empty() ? "empty" : due < d[0] ? "before-first" : due == d[0] ? "equal-first" : due > d.back() ? "after-last" : std::binary_search(d.begin(), d.end(), due) ? "equal-inner" : "between"; cov.hit(std::string("ins-") + cls); }
        acts.push_back(MAct{-1, 0, cycle, script, sarg, A_FREED});
        size_t h = acts.size() - 1;
        int16_t id = COTmrCreate(T(), start, cycle, cb, (void *)(uintptr_t)(h + 1));
        bool mustFail = (start == 0 && cycle == 0);
        int runningOneShot = (running >= 0 && acts[(size_t)running].period == 0) ? 1 : 0; (void)runningOneShot;
        bool full = before >= (int)maxN; bool maybeFull = before + limbo >= (int)maxN;
        if (mustFail) { if (id >= 0) fail("create/zero-times-accepted", "create(0,0) returned an id"); acts.pop_back(); return -1; }
        if (id < 0) {
            if (!maybeFull) { char b[128]; snprintf(b, sizeof b, "create(%u,%u) failed with %d of %u slots in use", start, cycle, before, maxN); fail("create/failed-with-free-slot", b); }
            else cov.hit("pool-full-create");
            acts.pop_back(); return -1;
        }
        if (full) { fail("create/succeeded-when-full", "create returned an id although every slot is in use"); acts.pop_back(); return -1; }
        if (id >= (int)maxN) { fail("create/id-range", "id beyond capacity"); acts.pop_back(); return -1; }
        if (liveById[(size_t)id] >= 0 && acts[(size_t)liveById[(size_t)id]].st != A_FREED) { fail("create/id-in-use", "returned id belongs to a live action"); acts.pop_back(); return -1; }
        uint32_t st = start ? start : cycle;
        uint64_t ins = S().lockStamp;   // insertion happens inside the critical section; no tick is injected inside one
        MAct &a = acts[h]; a.id = id; a.due = ins + st; a.st = A_PENDING; liveById[(size_t)id] = (int)h;
        promote();
        return (int)h;
    }
    void do_delete_id(int id) {
        promote();
        int h = (id >= 0 && id < (int)maxN) ? liveById[(size_t)id] : -1;
        bool live = h >= 0 && acts[(size_t)h].st != A_FREED;
        // detached = elapsed, shares the expiry currently being processed, not yet run
        bool maybeDetached = false;   // an action already detached by a running COTmrProcess is 'elapsed, not yet processed': the delete must cancel it
        if (live && inProcess && acts[(size_t)h].st == A_ELAPSED) cov.hit("delete-detached");
        if (live) { // reach: removal position class
            std::vector<uint64_t> d; for (auto &a : acts) if (a.st == A_PENDING) d.push_back(a.due); std::sort(d.begin(), d.end()); size_t same = 0; for (auto &a : acts) if (a.st != A_FREED && a.due == acts[(size_t)h].due) same++;
            MAct &a = acts[(size_t)h];
            const char *cls = a.st == A_ELAPSED ? (same > 1 ? "elapsed-shared" : "elapsed-only") : same > 1 ? "shared-event" : d.size() == 1 ? "only" : a.due == d[0] ? "first" : a.due == d.back() ? "last" : "inner";
            cov.hit(std::string("del-") + cls);
            if (a.st == A_ELAPSED) nontrivial = true;
        }
        int16_t r = COTmrDelete(T(), (int16_t)id);
        if (!live) { if (r == 0) { char b[96]; snprintf(b, sizeof b, "delete(%d) of a non-live id returned 0", id); fail("delete/stale-confirmed", b); } return; }
        MAct &a = acts[(size_t)h];
        if (r == 0) { if (inProcess && a.st == A_ELAPSED) limbo++; a.st = A_FREED; a.cancelMaybe = false; }
        else if (maybeDetached) { a.cancelMaybe = true; cov.hit("delete-detached-refused"); }
        else { char b[128]; snprintf(b, sizeof b, "delete(%d) of a live %s action returned %d", id, a.st == A_ELAPSED ? "elapsed" : "pending", r); fail(a.st == A_ELAPSED ? "delete/elapsed-refused" : "delete/live-refused", b); }
    }
    void on_callback(size_t h) {
        promote();
        if (h >= acts.size()) { fail("callback/unknown", "callback with unknown argument"); return; }
        MAct &a = acts[h];
        if (!inProcess) { fail("callback/outside-process", "callback outside COTmrProcess"); return; }
        if (a.st == A_FREED) { char b[96]; snprintf(b, sizeof b, "action id %d ran after its deletion was confirmed / after it ended", a.id); fail("callback/after-delete", b); return; }
        if (a.st == A_PENDING) { char b[160]; snprintf(b, sizeof b, "action id %d ran at tick %llu, due %llu", a.id, (unsigned long long)S().now, (unsigned long long)a.due); fail(a.runs ? "callback/twice-or-early" : "callback/early", b); return; }
        a.runs++; a.cancelMaybe = false;
        w.ev(EV_TMRCB, a.id, (int64_t)a.due);
        if (a.period == 0) { a.st = A_FREED; }
        else { uint64_t ins = S().lockStamp; a.due = ins + a.period; a.st = A_PENDING; promote(); }
        int save = running; running = (int)h;
        if (preemptive) w.preemptPoint(2000);
        switch (a.script) {
        case 1: do_delete_id(a.id); break;
        case 2: if (!acts.empty()) do_delete_id(acts[(size_t)(a.arg % (int64_t)acts.size())].id); break;
        case 3: do_create((uint32_t)(a.arg & 0xff), (uint32_t)((a.arg >> 8) & 0xff), 0, 0); break;
        default: break;
        }
        running = save;
    }
    void do_process() {
        promote();
        std::vector<size_t> mustRun; for (size_t h = 0; h < acts.size(); h++) if (acts[h].st == A_ELAPSED) mustRun.push_back(h);
        std::vector<uint64_t> runsBefore; for (size_t h : mustRun) runsBefore.push_back(acts[h].runs);
        if (mustRun.size() > 1) cov.hit("process-multi");
        inProcess = true;
        COTmrProcess(T());
        inProcess = false; limbo = 0;
        for (size_t i = 0; i < mustRun.size(); i++) {
            MAct &a = acts[mustRun[i]];
            bool ran = a.runs > runsBefore[i];
            if (!ran && a.st == A_ELAPSED && !a.cancelMaybe) { char b[160]; snprintf(b, sizeof b, "action id %d due %llu did not run in the processing step at tick %llu", a.id, (unsigned long long)a.due, (unsigned long long)S().now); fail("process/lost", b); }
            if (!ran && a.cancelMaybe) { a.st = A_FREED; a.cancelMaybe = false; }   // delete of a detached action took effect after all
        }
        if (S().cfg.strict) for (auto &a : acts) if (a.st == A_ELAPSED && !v.ok) break;
    }
    void do_tick(uint64_t n) {
        if (S().cfg.strict) {
            // strict regime: every elapsed tick is followed by processing
            int budget = 3000;   // a tick operation ends early after 3000 expiries (deterministic; keeps huge jumps cheap)
            while (n > 0 && v.ok && budget-- > 0) {
                uint32_t c = S().counter;
                if (c == 0 || (uint64_t)c > n) { if (c) S().counter = c - (uint32_t)n; S().now += n; break; }
                S().now += c; n -= c; S().counter = 1;
                int16_t r = COTmrService(T());
                if (r > 0) do_process();
                else fail("service/no-elapse", "hardware counter reached zero but service reported nothing");
            }
            // model: nothing may be left elapsed
            promote(); for (auto &a : acts) if (a.st == A_ELAPSED) { char b[128]; snprintf(b, sizeof b, "action id %d due %llu still pending after tick %llu", a.id, (unsigned long long)a.due, (unsigned long long)S().now); fail("tick/not-fired", b); break; }
        } else {
            w.tick(0, n);
        }
    }

    Verdict run() {
        NodeCfg cfg; cfg.freq = (uint32_t)plan.c("freq", 1000); cfg.tmrNum = (uint16_t)plan.c("tmrnum", 4); bool lagged = !preemptive && plan.c("lag", 0) != 0; cfg.strict = !preemptive && !lagged; if (cfg.tmrNum < 1) cfg.tmrNum = 1;   // lagged (C07): no preemption, but COTmrProcess is its own operation and may come any number of ticks late
        if (lagged) { cov.hit("F13-processing-lags-behind-ticks"); }
        std::vector<ObjSpec> d; add_mandatory(d, 1);
        w.verbose = verbose;
        w.build(0, cfg, d); w.init(0);
        maxN = cfg.tmrNum; liveById.assign(maxN, -1);
        if (preemptive) w.onPreemptPoint = [this](int site) { if (site >= 0) conservation("preemption point", false); };
        cov.hit(std::string("freq-") + std::to_string(cfg.freq));
        for (opi = 0; opi < (int)plan.ops.size() && v.ok; opi++) {
            const Op &o = plan.ops[(size_t)opi]; w.opIndex = (uint32_t)opi; w.ppCount = 0; w.preemptAt.clear();
            if (preemptive) for (uint8_t b : o.b) w.preemptAt.push_back(b);
            cov.ops++;
            if (o.k == "create") { do_create((uint32_t)o.arg(0), (uint32_t)o.arg(1), (int)o.arg(2), o.arg(3)); }
            else if (o.k == "delete") { int64_t r = o.arg(0); int id; if (r < 0) id = r == -1 ? -1 : r == -2 ? (int)maxN : r == -3 ? 32767 : (int)(-r % 40); else if (acts.empty()) id = (int)(r % (int64_t)maxN); else id = acts[(size_t)(r % (int64_t)acts.size())].id; do_delete_id(id); }
            else if (o.k == "tick") { do_tick((uint64_t)o.arg(0)); }
            else if (o.k == "process") { if (preemptive || lagged) { promote(); int ne = 0; std::set<uint64_t> due; for (auto &a : acts) if (a.st == A_ELAPSED) { ne++; due.insert(a.due); } if (lagged && due.size() > 1) { cov.hit("process-after-several-elapsed-events"); nontrivial = true; } do_process(); } }
            else if (o.k == "reinit") {   // the application stops the node and initialises it again on the same (used, not zeroed) memory: an empty pool of full capacity
                if (preemptive || lagged) continue; w.cur = 0; CONodeStop(w.N(0)); w.init(0); acts.clear(); liveById.assign(maxN, -1); cov.hit("reinit-on-used-memory"); if (CONodeGetErr(w.N(0)) != CO_ERR_NONE) { /* not a timer matter */ } }
            else if (o.k == "conv") { conv((uint16_t)o.arg(0), o.arg(1) ? CO_TMR_UNIT_100US : CO_TMR_UNIT_1MS); }
            if (w.fatal) fail("fatal", "fatal error callback");
            if (S().lockUnbalanced) fail("lock/unbalanced", "unlock without lock");
            if (v.ok) conservation("end of operation");
            // abstract state
            promote(); int np = 0, ne = 0; std::set<uint64_t> dues; for (auto &a : acts) { if (a.st == A_PENDING) { np++; dues.insert(a.due); } else if (a.st == A_ELAPSED) ne++; }
            Hash h; h.u64((uint64_t)np); h.u64((uint64_t)ne); h.u64(dues.size()); h.u64(maxN); cov.states.insert(h.h); Hash h2 = h; h2.str(o.k); h2.u64(w.ppFired ? 1 : 0); cov.pairs.insert(h2.h); trace.u64(h2.h);
            if (w.ppFired) { nontrivial = true; }
            ppPerOp.push_back(w.ppCount);
        }
        if (v.ok && preemptive) { // closing drain: no more preemption, everything pending must fire, nothing twice
            w.preemptAt.clear(); opi = (int)plan.ops.size();
            for (int k = 0; k < 4 && v.ok; k++) do_process();
            promote(); for (auto &a : acts) if (a.st == A_ELAPSED) fail("drain/lost", "elapsed action not processed by the closing drain");
            // one-shots still pending fire exactly at their due tick
            for (int round = 0; round < 6 && v.ok; round++) { uint64_t next = ~0ull; for (auto &a : acts) if (a.st == A_PENDING && a.period == 0 && a.due < next) next = a.due; if (next == ~0ull) break; if (next - S().now > (1ull << 33)) break; w.tick(0, next - S().now); do_process(); if (v.ok) conservation("drain"); }
        }
        if (v.ok && lagged) { opi = (int)plan.ops.size(); do_process(); promote(); for (auto &a : acts) if (a.st == A_ELAPSED && v.ok) fail("drain/lost", "elapsed action not processed by the closing processing step"); if (v.ok) conservation("closing processing step"); }
        cov.hit("preempt-fired", w.ppFired);
        for (auto &a : acts) if (a.runs > 1) { cov.hit("periodic-rearmed"); break; }
        if (acts.size() >= 2) nontrivial = true;
        cov.runs++; cov.sim_seconds += (double)S().now / (double)cfg.freq;
        if (nontrivial) { cov.nontrivial++; cov.traces.insert(trace.h); }
        v.loghash = w.log.h;
        if (verbose) fputs(w.text.c_str(), stdout);
        return v;
    }

    void conv(uint16_t time, uint32_t unit) {
        uint32_t f = S().cfg.freq; uint32_t got = COTmrGetTicks(T(), time, unit);
        unsigned __int128 num = (unsigned __int128)time * f;
        if (num % unit == 0) { uint64_t exact = (uint64_t)(num / unit); if (exact <= 0xffffffffull && got != (uint32_t)exact) { char b[160]; snprintf(b, sizeof b, "COTmrGetTicks(time=%u, unit=%u) at %u Hz = %u, exact %llu", time, unit, f, got, (unsigned long long)exact); fail("conv/inexact", b); } cov.hit("conv-exact-case"); }
        if (time < 65535) { uint32_t nxt = COTmrGetTicks(T(), (uint16_t)(time + 1), unit); if (nxt < got && (uint64_t)((unsigned __int128)(time + 1) * f / unit) <= 0xffffffffull) { char b[160]; snprintf(b, sizeof b, "COTmrGetTicks not monotone at time=%u unit=%u freq=%u: %u then %u", time, unit, f, got, nxt); fail("conv/non-monotone", b); } }
        uint16_t mt = COTmrGetMinTime(T(), unit);
        if (mt > 0 && (uint64_t)mt * f / unit <= 0xffffffffull) { uint32_t t1 = COTmrGetTicks(T(), mt, unit); if (t1 < 1) { char b[160]; snprintf(b, sizeof b, "COTmrGetMinTime(unit=%u)=%u at %u Hz converts to %u ticks", unit, mt, f, t1); fail("conv/mintime", b); } }
    }
};
static TmrRun *g_run = nullptr;
void TmrRun::cb(void *arg) { if (g_run) g_run->on_callback((size_t)(uintptr_t)arg - 1); }

Verdict run_tmr(const Plan &p, Cov &cov, bool verbose, bool preemptive) {
    TmrRun r(p, cov, preemptive, verbose); g_run = &r;
    Verdict v = r.run(); g_run = nullptr; return v;
}

const std::vector<uint32_t> FREQS = {100, 1000, 10000, 1000000, 300, 1500, 44100, 250, 8000, 1000, 1000000, 40000000, 65536000, 72000000, 100000000, 168000000};   // up to the timer clocks of current microcontrollers (freq / unit beyond 16 bit)
const std::vector<int64_t> TVALS = {0, 1, 1, 2, 2, 3, 3, 5, 7, 4, 6, 10, 1000, 0x80000000ll, 0xffffffffll, 65536, 65537, 70000, 131075};

Plan gen_tmr(Rng &r, bool thorough, bool preemptive) {
    Plan p; p.cfg["freq"] = r.pick(FREQS); p.cfg["tmrnum"] = r.chance(1, 3) ? r.range(1, 3) : r.range(1, 16);
    int len = (int)r.range(3, thorough ? 60 : 30); int handles = 0;
    bool lag = !preemptive && r.chance(1, 4); if (!preemptive) p.cfg["lag"] = lag;
    std::vector<int> wts = preemptive ? std::vector<int>{30, 20, 25, 20, 0} : lag ? std::vector<int>{30, 22, 30, 12, 6} : std::vector<int>{35, 20, 35, 0, 10};
    if (r.chance(1, 6)) {   // several actions falling due on one tick, the first one's callback deleting the second (a later one of the same event, with more behind it)
        int k = (int)r.range(3, 5); int64_t st = r.range(1, 3); for (int i = 0; i < k; i++) { p.ops.push_back(Op("create", {st, r.chance(1, 2) ? 0 : r.range(1, 4), i == 0 ? 2 : 0, i == 0 ? (int64_t)(handles + 1 + (int)r.below(2)) : 0})); handles++; }
        if (r.chance(1, 2)) p.ops.push_back(Op("tick", {st})); if (preemptive && r.chance(1, 2)) p.ops.push_back(Op("process")); }
    for (int i = 0; i < len; i++) {
        Op o; int k = r.weighted(wts);
        if (k == 0) { int64_t st = r.pick(TVALS), cy = r.chance(1, 2) ? 0 : r.pick(TVALS); if (r.chance(1, 10)) st = 0;
            int script = r.chance(1, 4) ? (int)r.range(1, 3) : 0; int64_t sarg = script == 3 ? (int64_t)(r.below(6) | r.below(4) << 8) : (int64_t)r.below(8);
            if (preemptive && cy > 1000 && !(cy >= 0x80000000ll && r.chance(1, 3))) cy &= 7;   // periods of 2^31 ticks and more stay possible (65535 ms on a 40 MHz timer clock is 0x9C3F63C0 ticks)
            if (preemptive && st > 1000 && !(st < 200000 && r.chance(1, 2)) && !(st >= 0x80000000ll && r.chance(1, 3))) st &= 7;   // long start delays (beyond 16 bit) stay possible, huge ones only in the strict regime
            o = Op("create", {st, cy, script, sarg}); handles++; }
        else if (k == 1) { o = Op("delete", {r.chance(1, 8) ? -(int64_t)r.range(1, 8) : (int64_t)r.below((uint32_t)std::max(1, handles + 1))}); }
        else if (k == 2) { int64_t n = r.chance(1, 12) ? r.pick(TVALS) : r.range(1, 4); if (preemptive && n > 1000) n = r.chance(1, 3) ? n % 140000 : 3; o = Op("tick", {n}); }
        else if (k == 3) { o = Op("process"); }
        else if (r.chance(1, 6)) { o = Op("reinit"); }
        else { o = Op("conv", {(int64_t)(r.chance(1, 2) ? r.below(65536) : r.pick({0, 1, 3, 10, 100, 1000, 65535, 30, 300})), (int64_t)r.below(2)}); }
        if (preemptive && r.chance(1, 3) && o.k != "tick") { int n = (int)r.range(1, 3); for (int j = 0; j < n; j++) o.b.push_back((uint8_t)r.below(12)); }
        p.ops.push_back(o);
    }
    return p;
}

// sweep (C08): one variant per (operation, preemption point) of the un-preempted run - every placement once
std::vector<Plan> sweep_tmr(const Plan &base) {
    std::vector<Plan> out;
    Plan clean = base; for (auto &o : clean.ops) o.b.clear();
    std::vector<uint32_t> pts;
    { Cov dummy; TmrRun r(clean, dummy, true, false); g_run = &r; (void)r.run(); g_run = nullptr; pts = r.ppPerOp; }
    size_t total = 0; for (uint32_t n : pts) total += std::min<uint32_t>(n, 255);
    size_t cap = 400, stride = total > cap ? (total + cap - 1) / cap : 1, k = 0;
    for (size_t i = 0; i < pts.size() && i < clean.ops.size(); i++)
        for (uint32_t j = 0; j < pts[i] && j < 255; j++, k++) if (k % stride == 0) { Plan q = clean; q.ops[i].b = {(uint8_t)j}; out.push_back(q); }
    return out;
}

Reg r07({"tmr_seq", "C07", [](Rng &r, bool t) { return gen_tmr(r, t, false); }, [](const Plan &p, Cov &c, bool vb) { return run_tmr(p, c, vb, false); }, nullptr, nullptr});
Reg r08({"tmr_irq", "C08", [](Rng &r, bool t) { return gen_tmr(r, t, true); }, [](const Plan &p, Cov &c, bool vb) { return run_tmr(p, c, vb, true); }, sweep_tmr,
         [](const Plan &p) { Plan c = p; for (auto &o : c.ops) o.b.clear(); return c; }});

} // namespace
} // namespace sim
