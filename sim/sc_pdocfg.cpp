// C14 (pdocfg): SDO write sequences to PDO communication/mapping parameters - acceptance rules and activation invariants.
#include "node_env.hpp"

namespace sim {
namespace {

enum { M_INVALID = 0, M_INIT = 1, M_PREOP = 2, M_OP = 3, M_STOP = 4 };
struct OClass { uint16_t idx; uint8_t sub; uint8_t width; bool rd, wr, map, exists; };

struct PdoCfgRun : NodeEnv {
    int m = M_PREOP; std::vector<OClass> oc; int nR = 2, nT = 2;
    PdoCfgRun(const Plan &p, Cov &c, bool vb) : NodeEnv(p, c, vb) {}
    const OClass *find(uint16_t idx, uint8_t sub) { for (auto &o : oc) if (o.idx == idx && o.sub == sub && o.exists) return &o; return nullptr; }
    void build() {
        nodeId = 1; freq = 1000; nR = std::min(3, CO_RPDO_N); nT = std::min(3, CO_TPDO_N);   // up to three channels: the last TPDO channel of the small build (CO_RPDO_N = 2 < CO_TPDO_N = 3) is one of them
        add_mandatory(specs, 1);
        add_typed(specs, T_SYNCID, 0x1005, 0, CO_OBJ_____RW, 0x80);
        // object classes
        oc = {{0x2100, 1, 1, true, true, true, true}, {0x2100, 2, 2, true, true, true, true}, {0x2100, 3, 4, true, true, true, true}, {0x2100, 4, 4, true, true, true, true},
              {0x2100, 5, 1, true, false, true, true},  /* read-only mappable */ {0x2100, 6, 2, false, true, true, true}, /* write-only mappable */
              {0x2100, 7, 1, true, true, false, true},  /* not mappable */ {0x2100, 8, 4, true, true, true, true}, {0x2100, 9, 1, true, true, true, true},
              {0x2100, 0x20, 1, true, true, true, false}, /* absent sub-index */ {0x2F00, 1, 1, true, true, true, false} /* absent index */};
        add_u8(specs, 0x2100, 0, CO_OBJ_D___R_, 9);
        for (auto &o : oc) if (o.exists) { uint8_t fl = (uint8_t)((o.rd ? CO_OBJ_____R_ : 0) | (o.wr ? CO_OBJ______W : 0) | (o.map ? CO_OBJ____P__ : 0)); add_typed(specs, o.width == 1 ? T_U8 : o.width == 2 ? T_U16 : T_U32, o.idx, o.sub, fl, 0x11u * o.sub); }
        for (int n = 0; n < nR; n++) { std::vector<uint32_t> maps; int k = (int)plan.c("rmap" + std::to_string(n), 1); for (int i = 0; i < k && i < 3; i++) maps.push_back(CO_LINK(0x2100, 1 + i, 8 * oc[(size_t)i].width));
            if (k == 4) { maps = {CO_LINK(0x0007, 0, 32), CO_LINK(0x2100, 1, 8), CO_LINK(0x0005, 0, 8)}; cov.hit("rpdo-default-mapping-with-dummies"); } if (k == 5) { maps = {CO_LINK(0x0007, 0, 32), CO_LINK(0x2100, 3, 32), CO_LINK(0x0005, 0, 8)}; cov.hit("rpdo-default-mapping-with-dummies"); }   /* defaults with dummy entries (cannot be created by SDO): 6 and 9 bytes */  add_rpdo(specs, n, (0x200u + 0x100u * (uint32_t)n + nodeId) | (plan.c("rvalid" + std::to_string(n), 1) ? 0 : 0x80000000u), (uint8_t)plan.c("rtype" + std::to_string(n), 254), maps, true); }
        for (int n = 0; n < nT; n++) { std::vector<uint32_t> maps; int k = (int)plan.c("tmap" + std::to_string(n), 1); for (int i = 0; i < k && i < 3; i++) maps.push_back(CO_LINK(0x2100, 1 + i, 8 * oc[(size_t)i].width)); add_tpdo(specs, n, (0x40000180u + 0x100u * (uint32_t)n + nodeId) | (plan.c("tvalid" + std::to_string(n), 1) ? 0 : 0x80000000u), (uint8_t)plan.c("ttype" + std::to_string(n), 254), 0, (uint16_t)plan.c("tev", 0), maps, true); }
        NodeCfg cfg; cfg.nodeId = nodeId; cfg.freq = freq; cfg.tmrNum = 16;
        w.build(0, cfg, specs);
        for (int n = 0; n < nR; n++) if (plan.c("rmap" + std::to_string(n), 1) == 5) w.setraw(0, mapIdx(false, n), 0, 2);   // the 9-byte default: only its first two entries (8 bytes) are counted, the third waits behind the count
        w.init(0); w.start(0);
        if (CONodeGetErr(N()) != CO_ERR_NONE) fail("setup/node-error", "node reports an error after initialisation");
        // F15: every timer slot taken by the application, TPDOs with an event time: an activation cannot get its timer - whatever the node then answers, a refused write changes nothing
        if (plan.c("poolfull", 0)) { w.cur = 0; while (COTmrCreate(&N()->Tmr, 1000000, 0, [](void *) {}, nullptr) >= 0) {} (void)CONodeGetErr(N()); cov.hit("F15-timer-pool-full"); }
    }
    uint16_t comIdx(bool tp, int n) { return (uint16_t)((tp ? 0x1800 : 0x1400) + n); }
    uint16_t mapIdx(bool tp, int n) { return (uint16_t)((tp ? 0x1A00 : 0x1600) + n); }
    bool pdoValid(bool tp, int n) { return (w.raw(0, comIdx(tp, n), 1) & 0x80000000u) == 0; }
    // stored mapping -> (ok, total bytes, all lengths equal object widths)
    struct SM { bool ok = true; uint32_t total = 0; bool exact = true; std::vector<std::pair<const OClass *, uint8_t>> ent; std::string why; };
    SM storedMap(bool tp, int n) {
        SM r; uint32_t cnt = w.raw(0, mapIdx(tp, n), 0);
        if (cnt > 8) { r.ok = false; r.why = "count " + std::to_string(cnt); return r; }
        for (uint32_t i = 1; i <= cnt; i++) { uint32_t e = w.raw(0, mapIdx(tp, n), (uint8_t)i); uint16_t idx = (uint16_t)(e >> 16); uint8_t sub = (uint8_t)(e >> 8); uint8_t bits = (uint8_t)e; const OClass *o = find(idx, sub);
            if (!o && !tp && idx >= 2 && idx <= 7 && sub == 0 && bits % 8 == 0 && bits) { r.total += bits / 8; r.ent.push_back({nullptr, (uint8_t)(bits / 8)}); continue; }   // RPDO dummy entry: skips its bytes
            if (!o) { r.ok = false; r.why = "entry " + std::to_string(i) + " names " + hex(e) + " which does not exist"; return r; }
            r.total += bits / 8; uint8_t by = (uint8_t)(bits / 8); if (!(by == o->width || (by == 3 && o->width == 4)) || bits % 8) r.exact = false; r.ent.push_back({o, by}); }
        if (r.total > 8) { r.ok = false; r.why = std::to_string(r.total) + " mapped bytes"; }
        return r;
    }
    // invariant + behaviour of whatever the node has activated
    void probeActive(const char *when, int freshTpdo = -1) {   // freshTpdo: the TPDO activated just now (-1: all of them, on entering OPERATIONAL) - its SYNC count starts at this instant
        if (m != M_OP) return; int preSyncs = 0;
        for (int n = 0; n < nT && v.ok; n++) {
            if (!pdoValid(true, n)) continue; uint8_t type = (uint8_t)w.raw(0, comIdx(true, n), 2); SM sm = storedMap(true, n);
            if (!sm.ok) { fail("cfg/activated-invalid-tpdo-mapping", "TPDO " + std::to_string(n) + " is valid in OPERATIONAL with " + sm.why + " (" + when + ")"); return; }
            if (type < 254) continue;
            size_t mk = w.mark(); w.cur = 0; COTPdoTrigPdo(N()->TPdo, (uint16_t)n); Fx fx = collect(mk); w.tick(0, 1);
            for (auto &t : fx.tx) { if (t.dlc > 8) { fail("cfg/tpdo-dlc-above-8", "TPDO frame with DLC " + std::to_string(t.dlc)); return; } }
            if (!sm.exact) continue;
            uint32_t id = w.raw(0, comIdx(true, n), 1) & 0x7FF; Frame e; e.id = id; for (auto &pe : sm.ent) { uint32_t val = w.raw(0, pe.first->idx, pe.first->sub); for (int b = 0; b < pe.second; b++) e.d[e.dlc++] = (uint8_t)(val >> (8 * b)); }
            bool rdOk = true; for (auto &pe : sm.ent) rdOk &= pe.first->rd;
            if (!rdOk) continue;
            if (fx.tx.size() != 1 || !(fx.tx[0] == e)) { fail("cfg/tpdo-behaviour", "TPDO " + std::to_string(n) + " after " + when + ": " + (fx.tx.empty() ? std::string("no frame") : fx.tx[0].str()) + ", stored configuration gives " + e.str()); return; }
            cov.hit("tpdo-activation-probed");
        }
        for (int n = 0; n < nR && v.ok; n++) {
            if (!pdoValid(false, n)) continue; uint8_t type = (uint8_t)w.raw(0, comIdx(false, n), 2); SM sm = storedMap(false, n);
            if (!sm.ok) { fail("cfg/activated-invalid-rpdo-mapping", "RPDO " + std::to_string(n) + " is valid in OPERATIONAL with " + sm.why + " (" + when + ")"); return; }
            if ((type > 240 && type < 254) || !sm.exact) continue;   // synchronous RPDOs (0..240) are probed with frame + SYNC
            uint32_t id = w.raw(0, comIdx(false, n), 1) & 0x7FF; bool clash = false; for (int k = 0; k < nR; k++) if (k != n && pdoValid(false, k) && (w.raw(0, comIdx(false, k), 1) & 0x7FF) == id) clash = true; if (clash || id == 0x601 || id == 0x80 || id == 0) continue;
            Frame f(id, 8, {(uint8_t)(0xA0 + opi), 0x5B, 0x6C, 0x7D, 0x8E, 0x9F, 0x10, 0x21}); std::vector<uint8_t> img = w.image(0); std::map<std::pair<uint16_t, uint8_t>, uint32_t> expv; int pos = 0;
            for (auto &pe : sm.ent) { uint32_t val = 0; for (int b = 0; b < pe.second; b++) val |= (uint32_t)f.d[pos + b] << (8 * b); pos += pe.second; if (pe.first) expv[{pe.first->idx, pe.first->sub}] = val; }
            deliver(f); if (type <= 240) { deliver(Frame(0x80, 0, {})); preSyncs++; cov.hit(type == 240 ? "rpdo-type-240-probed" : "synchronous-rpdo-probed"); }
            for (auto &o : oc) if (o.exists) { auto it = expv.find({o.idx, o.sub}); uint32_t now2 = w.raw(0, o.idx, o.sub); if (it != expv.end()) { if (now2 != it->second) { fail("cfg/rpdo-behaviour", "RPDO " + std::to_string(n) + " after " + when + ": object " + hex(o.idx) + ":" + std::to_string(o.sub) + " holds " + hex(now2) + ", stored mapping gives " + hex(it->second)); return; } } }
            // nothing but mapped objects changed
            std::vector<uint8_t> img2 = w.image(0); size_t off = 0; for (auto &sp : w.s[0].specs) { size_t len = w.bytes(0, sp.idx, sp.sub).size(); bool mapped = expv.count({sp.idx, sp.sub}) > 0; if (!mapped && memcmp(&img[off], &img2[off], len) != 0) { fail("cfg/rpdo-wrote-unmapped-object", "RPDO " + std::to_string(n) + " changed " + hex(sp.idx) + ":" + std::to_string(sp.sub) + " which it does not map"); return; } off += len; }
            cov.hit("rpdo-activation-probed");
        }
        // SYNCs after the activation: exactly the valid TPDOs whose *stored* transmission type is synchronous answer them - a TPDO activated just now (type n) on every n-th SYNC counted from
        // this instant and on no other (so a type-240 TPDO is probed with 240 SYNCs); one activated earlier (phase not tracked here): at most once per SYNC; types 254/255: never
        if (v.ok) {
            int K = 0; bool any = false; for (int n = 0; n < nT; n++) { if (!pdoValid(true, n)) continue; any = true; uint8_t type = (uint8_t)w.raw(0, comIdx(true, n), 2); bool fresh = freshTpdo < 0 || freshTpdo == n; if (fresh && type >= 1 && type <= 240) K = std::max(K, (int)type); }
            if (any && K == 0) K = 1;
            for (int k = preSyncs + 1; k <= preSyncs + K && v.ok; k++) {
                std::map<uint32_t, std::pair<int, int>> expc;   // id -> (mandatory, optional)
                for (int n = 0; n < nT; n++) { if (!pdoValid(true, n)) continue; uint8_t type = (uint8_t)w.raw(0, comIdx(true, n), 2); uint32_t id = w.raw(0, comIdx(true, n), 1) & 0x7FF; auto &e = expc[id]; bool fresh = freshTpdo < 0 || freshTpdo == n;
                    if (type >= 1 && type <= 240) { if (fresh) { if (k % type == 0) e.first++; } else e.second++; } else if (type < 254) e.second += 2; }
                Fx fx = deliver(Frame(0x80, 0, {})); std::map<uint32_t, int> got; for (auto &t : fx.tx) got[t.id]++;
                for (auto &e : expc) { int g = got.count(e.first) ? got[e.first] : 0; if (g < e.second.first || g > e.second.first + e.second.second) { fail("cfg/tpdo-sync-behaviour", "after " + std::string(when) + " SYNC number " + std::to_string(k) + " is answered by " + std::to_string(g) + " frame(s) on " + hex(e.first) + ", the stored transmission types give " + std::to_string(e.second.first) + (e.second.second ? ".." + std::to_string(e.second.first + e.second.second) : "")); return; } }
            }
            if (any) { cov.hit("sync-probed-after-activation"); if (K >= 240) cov.hit("type-240-tpdo-probed-with-240-syncs"); }
        }
    }
    void op(const Op &o) {
        const std::string &k = o.k;
        if (k == "nmt") { uint8_t cs = (uint8_t)o.arg(0); deliver(Frame(0, 2, {cs, 0})); int old = m; if (cs == 1) m = M_OP; else if (cs == 2) m = M_STOP; else if (cs == 128) m = M_PREOP; if (m == M_OP && old != M_OP) { cov.hit("enter-operational"); probeActive("entering OPERATIONAL"); } safety(); return; }
        if (k != "w" || (m != M_PREOP && m != M_OP)) return;
        bool tp = o.arg(0) != 0; int n = (int)(o.arg(1) % (tp ? nT : nR)); int what = (int)o.arg(2); uint32_t val = (uint32_t)o.arg(3);
        uint16_t idx; uint8_t sub; int width;
        if (what == 0) { idx = mapIdx(tp, n); sub = 0; width = 1; val &= 0xFF; } else if (what >= 1 && what <= 8) { idx = mapIdx(tp, n); sub = (uint8_t)what; width = 4; }
        else if (what == 9) { idx = comIdx(tp, n); sub = 1; width = 4; } else if (what == 10) { idx = comIdx(tp, n); sub = 2; width = 1; val &= 0xFF; } else if (what == 11) { idx = comIdx(tp, n); sub = 3; width = 2; val = 0; if (!tp) return; } else { idx = comIdx(tp, n); sub = 5; width = 2; val = 0; if (!tp) return; }
        bool validBefore = pdoValid(tp, n); uint32_t cntBefore = w.raw(0, mapIdx(tp, n), 0); uint32_t old = w.raw(0, idx, sub); std::vector<uint8_t> img = w.image(0);
        uint32_t ab = sdoWrite(idx, sub, val, width); uint32_t st = w.raw(0, idx, sub); nontrivial = true;
        std::string ctx = std::string(tp ? "TPDO " : "RPDO ") + std::to_string(n) + " write " + hex(idx) + ":" + std::to_string(sub) + " = " + hex(val) + " (PDO " + (validBefore ? "valid" : "invalid") + ", count " + std::to_string(cntBefore) + ", old " + hex(old) + ") -> " + (ab ? "abort " + hex(ab) : "accepted");
        if (ab == 0xFFFFFFFFu) { fail("cfg/no-response", ctx); return; }
        if (ab != 0) { // (2) a refused write changes nothing
            if (w.image(0) != img) { fail("cfg/refused-but-changed", ctx); return; }
            cov.hit("refused");
            // (3) completeness on the unambiguous core
            bool must = false;
            if (!validBefore) {
                if (what >= 1 && what <= 8 && cntBefore == 0) { const OClass *t = find((uint16_t)(val >> 16), (uint8_t)(val >> 8)); uint8_t bits = (uint8_t)val; if (t && t->map && (tp ? t->rd : t->wr) && (bits / 8 == t->width || (bits == 24 && t->width == 4)) && bits % 8 == 0) must = true; }
                if (what == 0 && val <= 8) { uint32_t total = 0; bool allOk = true; for (uint32_t i = 1; i <= val; i++) { uint32_t e = w.raw(0, mapIdx(tp, n), (uint8_t)i); total += (e & 0xFF) / 8; if (!find((uint16_t)(e >> 16), (uint8_t)(e >> 8))) allOk = false; } if (total <= 8 && allOk) must = true; }
                if (what == 10 && ((val >= 1 && val <= 240) || val >= 254)) must = true;
                if (what == 9 && !(val & 0x80000000u) && !(val & 0x20000000u) && (val & 0x1FFFF800u) == 0 && (!tp || (val & 0x40000000u))) { SM sm = storedMap(tp, n); if (sm.ok && !(tp && plan.c("poolfull", 0))) must = true; }
                if (what == 9 && (val & 0x80000000u) && !(val & 0x20000000u) && (!tp || (val & 0x40000000u))) must = true;
            }
            if (must) fail("cfg/valid-write-refused", ctx);
            return;
        }
        // accepted: stored value is the written one
        if (st != val) { fail("cfg/accepted-but-not-stored", ctx + ", stored " + hex(st)); return; }
        cov.hit("accepted");
        // only the written entry changed
        { std::vector<uint8_t> img2 = w.image(0); size_t off = 0; for (auto &sp : w.s[0].specs) { size_t len = w.bytes(0, sp.idx, sp.sub).size(); if (!(sp.idx == idx && sp.sub == sub) && memcmp(&img[off], &img2[off], len) != 0) { fail("cfg/write-changed-other-entry", ctx + ": " + hex(sp.idx) + ":" + std::to_string(sp.sub) + " changed"); return; } off += len; } }
        // (1) soundness of acceptance
        if (what == 0) { if (validBefore) { fail("cfg/count-changed-while-valid", ctx); return; } if (val > 8) { fail("cfg/count-above-8-accepted", ctx); return; } SM sm = storedMap(tp, n); if (!sm.ok) { fail("cfg/count-accepted-with-invalid-mapping", ctx + ": " + sm.why); return; } cov.hit("count-accepted"); }
        else if (what >= 1 && what <= 8) {
            if (validBefore) { fail("cfg/mapping-changed-while-valid", ctx); return; } if (cntBefore != 0) { fail("cfg/mapping-changed-while-count-nonzero", ctx); return; }
            const OClass *t = find((uint16_t)(val >> 16), (uint8_t)(val >> 8)); if (!t) { fail("cfg/mapping-to-absent-object-accepted", ctx); return; } if (!t->map) { fail("cfg/mapping-to-unmappable-object-accepted", ctx); return; } if (tp ? !t->rd : !t->wr) { fail("cfg/mapping-with-wrong-access-accepted", ctx); return; } cov.hit("mapping-accepted"); }
        else if (what == 9) {
            if (val & 0x20000000u) { fail("cfg/extended-id-accepted", ctx); return; } if (tp && !(val & 0x40000000u)) { fail("cfg/rtr-allowed-accepted", ctx); return; }
            if (validBefore && !(val & 0x80000000u) && ((val ^ old) & 0x3FFFFFFFu)) { fail("cfg/cobid-changed-while-valid", ctx); return; }
            cov.hit(validBefore ? ((val & 0x80000000u) ? "invalidate" : "valid-to-valid") : ((val & 0x80000000u) ? "invalid-to-invalid" : "validate"));
            if (m == M_OP && !validBefore && !(val & 0x80000000u)) { cov.hit("revalidate-in-operational"); probeActive("re-validating in OPERATIONAL", tp ? n : 99); } }
        else if (what == 10) { if (validBefore) { fail("cfg/type-changed-while-valid", ctx); return; } cov.hit("type-accepted"); }
        safety();
    }
    Verdict run() {
        build();
        for (opi = 0; opi < (int)plan.ops.size() && v.ok; opi++) {
            const Op &o = plan.ops[(size_t)opi]; w.opIndex = (uint32_t)opi; cov.ops++;
            op(o);
            Hash h; h.str(o.k); h.u64((uint64_t)m); if (o.k == "w") { h.u64((uint64_t)o.arg(0)); h.u64((uint64_t)std::min<int64_t>(o.arg(2), 9) + (uint64_t)(o.arg(2) > 9 ? o.arg(2) - 9 : 0)); } for (int n = 0; n < nT; n++) { h.u64(pdoValid(true, n)); h.u64(w.raw(0, mapIdx(true, n), 0)); } for (int n = 0; n < nR; n++) { h.u64(pdoValid(false, n)); h.u64(w.raw(0, mapIdx(false, n), 0)); } cov.pairs.insert(h.h); trace.u64(h.h); cov.states.insert(h.h);
        }
        finish(); return v;
    }
};

Plan gen_pdocfg(Rng &r, bool thorough) {
    Plan p; if (r.chance(1, 6)) { p.cfg["poolfull"] = 1; p.cfg["tev"] = r.pick<int64_t>({20, 50}); }
    for (int n = 0; n < 3; n++) { p.cfg["rvalid" + std::to_string(n)] = r.below(2); p.cfg["tvalid" + std::to_string(n)] = r.below(2); p.cfg["rmap" + std::to_string(n)] = r.chance(1, 5) ? r.range(4, 5) : r.below(4); p.cfg["tmap" + std::to_string(n)] = r.below(4); p.cfg["rtype" + std::to_string(n)] = r.pick<int64_t>({254, 255, 1, 240, 254}); p.cfg["ttype" + std::to_string(n)] = r.pick<int64_t>({254, 255, 1, 254, 255, 1, 240, 3}); }
    auto link = [&]() -> int64_t { static const uint32_t targets[] = {0x210001, 0x210002, 0x210003, 0x210004, 0x210005, 0x210006, 0x210007, 0x210008, 0x210009, 0x210020, 0x2F0001, 0x100000, 0x000500}; static const uint8_t widths[] = {1, 2, 4, 4, 1, 2, 1, 4, 1, 1, 1, 4, 1}; uint32_t i = r.below(13); uint32_t bits = r.chance(3, 4) ? widths[i] * 8u : r.pick<uint32_t>({8, 16, 24, 32, 64, 0, 1, 40}); return (int64_t)(targets[i] << 8 | bits); };
    int n = (int)r.range(4, thorough ? 60 : 30);
    for (int i = 0; i < n; i++) {
        int c = (int)r.below(20); int64_t tp = r.below(2), ch = r.below(3);
        if (c < 3) p.ops.push_back(Op("nmt", {r.pick<int64_t>({1, 1, 1, 2, 128})}));
        else if (c < 7) { int64_t base = (tp ? 0x40000180 : 0x200) + 0x100 * ch + 1; int64_t v = r.pick<int64_t>({base, base | 0x80000000ll, base, base | 0x80000000ll, (base + 0x10) | 0x80000000ll, base + 0x10, base | 0x20000000, base & ~0x40000000ll, (base | 0x80000000ll) & ~0x40000000ll, (base ^ 0x100) | 0x80000000ll}); p.ops.push_back(Op("w", {tp, ch, 9, v})); }
        else if (c < 9) p.ops.push_back(Op("w", {tp, ch, 10, r.pick<int64_t>({1, 240, 254, 255, 254, 0, 241, 253, 2})}));
        else if (c < 13) p.ops.push_back(Op("w", {tp, ch, 0, r.pick<int64_t>({0, 0, 1, 2, 3, 4, 8, 9, 5, 255})}));
        else if (c < 19) p.ops.push_back(Op("w", {tp, ch, r.range(1, 8), link()}));
        else p.ops.push_back(Op("w", {1, ch, r.range(11, 12), 0}));   // inhibit/event time writes: verdict not constrained; value 0 keeps the activation probes free of timing
    }
    // a whole re-mapping with e entries of one width, then count := e (or a neighbour): sums of 8..256 bits, i.e. below, at and far above the 64 bit limit
    if (r.chance(1, 3)) {
        int64_t tp = r.below(2), ch = r.below(3); int64_t base = (tp ? 0x40000180 : 0x200) + 0x100 * ch + 1; int e = (int)r.range(2, 8); uint32_t wbits = r.pick<uint32_t>({8, 16, 32, 32});
        static const uint32_t t8[] = {0x210001, 0x210005, 0x210007, 0x210009}, t16[] = {0x210002, 0x210006}, t32[] = {0x210003, 0x210004, 0x210008};
        p.ops.push_back(Op("w", {tp, ch, 9, base | 0x80000000ll})); p.ops.push_back(Op("w", {tp, ch, 0, 0}));
        for (int i = 1; i <= e; i++) { uint32_t t = wbits == 8 ? t8[r.below(4)] : wbits == 16 ? t16[r.below(2)] : t32[r.below(3)]; p.ops.push_back(Op("w", {tp, ch, i, (int64_t)(t << 8 | wbits)})); }
        p.ops.push_back(Op("w", {tp, ch, 0, r.chance(3, 4) ? e : (int64_t)r.range(1, 8)})); p.ops.push_back(Op("w", {tp, ch, 9, base})); p.ops.push_back(Op("nmt", {1}));
    }
    // the canonical re-mapping sequence, somewhere at the end (must always succeed)
    if (r.chance(1, 2)) { int64_t tp = r.below(2), ch = r.below(3); int64_t base = (tp ? 0x40000180 : 0x200) + 0x100 * ch + 1; p.ops.push_back(Op("w", {tp, ch, 9, base | 0x80000000ll})); p.ops.push_back(Op("w", {tp, ch, 0, 0})); p.ops.push_back(Op("w", {tp, ch, 1, 0x21000108})); p.ops.push_back(Op("w", {tp, ch, 2, 0x21000320})); p.ops.push_back(Op("w", {tp, ch, 0, 2})); p.ops.push_back(Op("w", {tp, ch, 10, 254})); p.ops.push_back(Op("w", {tp, ch, 9, base})); p.ops.push_back(Op("nmt", {1})); }
    return p;
}
Reg r14({"pdocfg", "C14", gen_pdocfg, [](const Plan &p, Cov &c, bool vb) { PdoCfgRun x(p, c, vb); return x.run(); }, nullptr, nullptr});

} // namespace
} // namespace sim
