// C17 (para): parameter store/restore, reload on restart and reset, NVM short reads/writes. Fault enumeration:
// every generated request sequence is executed fault-free, then once per restart point and once per
// (NVM driver call, short-length class).
#include "node_env.hpp"

namespace sim {
namespace {

struct Grp { uint32_t offset, size; int type; bool enabled; uint32_t cap = 1; std::vector<uint8_t> ram0, def, nvmModel; bool torn = false; bool ramUnknown = false; bool absent = false; };

struct ParaRun : NodeEnv {
    std::vector<Grp> g; int nSub = 1; size_t nvmSize = 0; std::vector<uint32_t> writesPerOp, readsPerOp; bool injected = false;
    int64_t fKind = -1, fK = -1, fShort = 0;   // injected fault: 0 write / 1 read, k-th call, short-length class
    ParaRun(const Plan &p, Cov &c, bool vb) : NodeEnv(p, c, vb) {}
    bool armed = false, armedReal = false, hooked = false; int armG = 0; uint32_t armB = 0; uint8_t armV = 0;
    // sub-index -> group index (sub 1 with more than one sub-index is the umbrella and aliases the first group)
    int subgap = 0;   /* a sub-index of 1010h/1011h that is not implemented (legal gap): its group is unreachable */
    int grpOfSub(int sub) { if (sub == subgap && subgap) return -1; if (nSub == 1) return sub == 1 ? 0 : -1; if (sub == 1) return 0; if (sub >= 2 && sub <= nSub) return sub - 2; return -1; }
    std::vector<int> addressed(int sub) { std::vector<int> r; if (nSub > 1 && sub == 1) { for (size_t i = 0; i < g.size(); i++) if (!g[i].absent) r.push_back((int)i); } else { int x = grpOfSub(sub); if (x >= 0) r.push_back(x); } return r; }
    uint32_t shortLen(uint32_t size) { switch (fShort) { case 0: return 0; case 1: return size > 1 ? 1 : 0; case 2: return size / 2; default: return size - 1; } }

    void buildNode(bool first) {
        specs.clear(); add_mandatory(specs, 1);
        std::vector<ParaSpec> ps; for (auto &x : g) { ParaSpec s; s.offset = x.offset; s.size = x.size; s.type = x.type; s.value = x.cap; ps.push_back(s); }
        add_typed(specs, T_PARASTORE, 0x1010, 0, CO_OBJ_D___R_, (uint32_t)nSub); add_typed(specs, T_PARARESTORE, 0x1011, 0, CO_OBJ_D___R_, (uint32_t)nSub);
        for (int s = 1; s <= nSub; s++) { if (s == subgap) continue; int gi = grpOfSub(s); add_typed(specs, T_PARASTORE, 0x1010, (uint8_t)s, CO_OBJ_____RW, 0, gi); add_typed(specs, T_PARARESTORE, 0x1011, (uint8_t)s, CO_OBJ_____RW, 0, gi); }
        NodeCfg cfg; cfg.nodeId = 1; cfg.freq = 1000; cfg.tmrNum = 4;
        std::vector<uint8_t> keep = w.s[0].nvm; uint64_t wr = S().nvmWrites, rd = S().nvmReads; int64_t wf = S().nvmWriteFaultAt, rf = S().nvmReadFaultAt; uint32_t wsh = S().nvmWriteShort, rsh = S().nvmReadShort;
        w.build(0, cfg, specs, ps, {}, nvmSize);
        if (!first) { w.s[0].nvm = keep; S().nvmWrites = wr; S().nvmReads = rd; S().nvmWriteFaultAt = wf; S().nvmReadFaultAt = rf; S().nvmWriteShort = wsh; S().nvmReadShort = rsh; }
        for (size_t i = 0; i < g.size(); i++) { memcpy(S().paraRam[i], g[i].ram0.data(), g[i].size); memcpy(S().paras[i]->Default, g[i].def.data(), g[i].size); }
    }
    void armFault() {
        if (fKind == 0) { S().nvmWriteFaultAt = fK; }
        if (fKind == 1) { S().nvmReadFaultAt = fK; }
    }
    // short length depends on the size of the call that is hit: install lazily through the per-call hook values
    void setup() {
        nSub = (int)plan.c("nsub", 1); if (nSub < 1) nSub = 1; if (nSub > 5) nSub = 5; size_t ng = nSub == 1 ? 1 : (size_t)nSub - 1; uint32_t off = (uint32_t)plan.c("base", 0);
        for (size_t i = 0; i < ng; i++) { Grp x; x.size = (uint32_t)plan.c("size" + std::to_string(i), 4); if (x.size < 1) x.size = 1; if (x.size > 64) x.size = 64; x.offset = off; off += x.size + (uint32_t)plan.c("gap" + std::to_string(i), 0); x.type = plan.c("type" + std::to_string(i), 0) ? CO_RESET_COM : CO_RESET_NODE; x.cap = (uint32_t)plan.c("en" + std::to_string(i), 1) & 3; x.enabled = (x.cap & CO_PARA___E) != 0; if (x.cap == CO_PARA__A_) cov.hit("group-saves-autonomously-only");   // capability word: bit 0 'on command', bit 1 'autonomously'; only bit 0 enables the 'save' / 'load' requests
            x.ram0.resize(x.size); x.def.resize(x.size); x.nvmModel.resize(x.size); for (uint32_t b = 0; b < x.size; b++) { x.ram0[b] = (uint8_t)(0x10 * (i + 1) + b); x.def[b] = (uint8_t)(0xD0 + i + b * 3); x.nvmModel[b] = (uint8_t)(0xE0 ^ (b * 7 + i)); } g.push_back(x); }
        nvmSize = off + 8;
        subgap = (int)plan.c("subgap", 0); if (nSub < 3 || subgap < 2 || subgap > nSub) subgap = 0; if (subgap) { g[(size_t)subgap - 2].absent = true; cov.hit("1010h-with-sub-index-gap"); }
        for (auto &o : plan.ops) if (o.k == "fault") { fKind = o.arg(0); fK = o.arg(1); fShort = o.arg(2); }
        buildNode(true);
        for (auto &x : g) memcpy(&w.s[0].nvm[x.offset], x.nvmModel.data(), x.size);     // initial NVM content (e.g. programmed at production)
        armFault(); boot("first power-up");
    }
    // the fault hits whichever call has the armed index; its short length is a class of that call's size
    void fixShort() { Slot &s = S(); if (fKind == 0 && s.nvmWriteFaultAt >= 0) s.nvmWriteShort = 0xFFFFFFFF; if (fKind == 1 && s.nvmReadFaultAt >= 0) s.nvmReadShort = 0xFFFFFFFF; }
    // run something and apply the size-dependent short length: done by pre-computing from the expected call sequence
    std::vector<std::vector<uint8_t>> ramPrev;   // RAM images before a (re)load: after a short read the groups behind the failing one may keep them
    void snapRam() { ramPrev.clear(); for (size_t i = 0; i < g.size(); i++) ramPrev.push_back(ramOf(i)); }
    void boot(const char *what) {
        size_t mk = w.mark(); snapRam(); presetShortForReads(); w.init(0); w.start(0); CO_ERR err = CONodeGetErr(N());
        afterLoad(mk, true, true, err, what);
    }
    void presetShortForReads() { // reads happen for the groups in sub-index order; compute which group the k-th read belongs to lazily in the driver: use group sizes
        if (fKind != 1) return; /* handled in afterLoad through event inspection: the driver takes nvmReadShort at call time */
        // find the size of the call with index fK by simulation of the load order from the current counter
        uint64_t idx = S().nvmReads; auto visit = [&](int type) { for (int s = 1; s <= nSub; s++) { int gi = grpOfSub(s); if (gi < 0 || g[(size_t)gi].type != type) continue; if ((int64_t)idx == fK) S().nvmReadShort = shortLen(g[(size_t)gi].size); idx++; } };
        visit(CO_RESET_NODE); visit(CO_RESET_COM);
    }
    // after init / reset: RAM of the reloaded groups equals the model of their NVM range
    void afterLoad(size_t mk, bool node, bool com, CO_ERR err, const char *what) {
        bool shortRead = false; std::set<int> hit;
        for (size_t i = mk; i < w.evs.size(); i++) { const Ev &e = w.evs[i]; if (e.kind == EV_NVMR && e.c != e.b) { shortRead = true; injected = true; cov.hit("F9-nvm-short-read"); for (size_t k = 0; k < g.size(); k++) if (g[k].offset == (uint32_t)e.a) hit.insert((int)k); } }
        if (shortRead) { if (err == CO_ERR_NONE) { fail("para/short-read-ignored", std::string("NVM short read during ") + what + " but the node reports no error"); return; } }
        for (size_t k = 0; k < g.size(); k++) {
            bool reloaded = !g[k].absent && ((g[k].type == CO_RESET_NODE && node) || (g[k].type == CO_RESET_COM && com)); if (!reloaded) continue;
            if (hit.count((int)k)) { g[k].ramUnknown = true; continue; }
            g[k].ramUnknown = false;
            if (g[k].torn) continue;     // NVM holds a torn image: accepted, content of the tail follows the prefix rule below
        }
        checkRam(what, node, com, hit, shortRead);
    }
    void checkRam(const char *what, bool node, bool com, const std::set<int> &hit, bool shortRead = false) {
        for (size_t k = 0; k < g.size() && v.ok; k++) {
            bool reloaded = !g[k].absent && ((g[k].type == CO_RESET_NODE && node) || (g[k].type == CO_RESET_COM && com)); if (!reloaded || hit.count((int)k)) continue;
            if (shortRead) cov.hit("short-read-other-groups-still-loaded");
            if (memcmp(S().paraRam[k], g[k].nvmModel.data(), g[k].size) != 0) { uint32_t b = 0; while (S().paraRam[k][b] == g[k].nvmModel[b]) b++; fail("para/reload", "group " + std::to_string(k) + " byte " + std::to_string(b) + " is " + hex(S().paraRam[k][b]) + " after " + what + ", last stored image has " + hex(g[k].nvmModel[b])); return; }
        }
        // NVM itself must equal the model everywhere (nothing else touched)
        for (size_t k = 0; k < g.size() && v.ok; k++) if (memcmp(&S().nvm[g[k].offset], g[k].nvmModel.data(), g[k].size) != 0) { fail("para/nvm-content", "NVM range of group " + std::to_string(k) + " differs from the model after " + std::string(what)); return; }
    }
    std::vector<uint8_t> ramOf(size_t k) { return std::vector<uint8_t>(S().paraRam[k], S().paraRam[k] + g[k].size); }

    void op(const Op &o) {
        const std::string &k = o.k; if (k == "fault") return; size_t mk = w.mark(); uint64_t w0 = S().nvmWrites, r0 = S().nvmReads;
        if (k == "ram") { size_t gi = (size_t)o.arg(0) % g.size(); uint32_t b = (uint32_t)o.arg(1) % g[gi].size; S().paraRam[gi][b] = (uint8_t)o.arg(2); g[gi].ramUnknown = false; }
        else if (k == "read") {   // a plain SDO read of 1010h / 1011h (any sub-index): no driver call, no byte of RAM or NVM may change, no default callback
            std::vector<std::vector<uint8_t>> ramBefore; for (size_t i = 0; i < g.size(); i++) ramBefore.push_back(ramOf(i)); std::vector<uint8_t> nvmBefore = S().nvm;
            uint32_t val = 0; int sub = (int)o.arg(1) % (nSub + 2); (void)sdoRead((uint16_t)(o.arg(0) ? 0x1011 : 0x1010), (uint8_t)sub, val); cov.hit(sub == 0 ? "read-sub0" : "read-sub"); nontrivial = true;
            std::string ctx = std::string("SDO read of ") + (o.arg(0) ? "1011h:" : "1010h:") + std::to_string(sub);
            for (size_t i = mk; i < w.evs.size(); i++) if (w.evs[i].kind == EV_NVMW || w.evs[i].kind == EV_NVMR || w.evs[i].kind == EV_PARADEFAULT) { fail("para/read-touched-storage", ctx + " called the NVM driver or the default callback"); return; }
            for (size_t i = 0; i < g.size(); i++) if (ramOf(i) != ramBefore[i]) { fail("para/read-touched-ram", ctx + " changed the RAM image of group " + std::to_string(i)); return; }
            if (S().nvm != nvmBefore) { fail("para/read-touched-storage", ctx + " changed NVM"); return; }
        }
        else if (k == "store" || k == "restore") {
            bool store = k == "store"; int sub = (int)o.arg(0) % (nSub + 2); uint32_t sig = (uint32_t)o.arg(1); uint32_t right = store ? 0x65766173u : 0x64616F6Cu;
            std::vector<std::vector<uint8_t>> ramBefore; for (size_t i = 0; i < g.size(); i++) ramBefore.push_back(ramOf(i)); std::vector<uint8_t> nvmBefore = S().nvm;
            // size-dependent short length for the write that will be hit
            if (store && fKind == 0 && sig == right) { uint64_t idx = S().nvmWrites; for (int gi : addressed(sub)) if (g[(size_t)gi].enabled) { if ((int64_t)idx == fK) S().nvmWriteShort = shortLen(g[(size_t)gi].size); idx++; } }
            uint32_t ab = sdoWrite((uint16_t)(store ? 0x1010 : 0x1011), (uint8_t)sub, sig, 4);
            std::vector<Ev> nv, defs; for (size_t i = mk; i < w.evs.size(); i++) { if (w.evs[i].kind == EV_NVMW || w.evs[i].kind == EV_NVMR) nv.push_back(w.evs[i]); if (w.evs[i].kind == EV_PARADEFAULT) defs.push_back(w.evs[i]); }
            std::string ctx = std::string(store ? "store" : "restore") + " request to sub-index " + std::to_string(sub) + " with " + hex(sig) + " -> " + (ab ? "abort " + hex(ab) : "confirmed");
            bool valid = sub >= 1 && sub <= nSub && sub != subgap && sig == right;
            if (!valid) {
                cov.hit(sub == 0 ? "request-sub0" : (sub > nSub || sub == subgap) ? "request-absent-sub" : "request-wrong-signature");
                if (ab == 0 || ab == 0xFFFFFFFFu) { fail("para/invalid-request-confirmed", ctx); return; }
                if ((sub > nSub || (subgap && sub == subgap)) && ab != 0x06090011) { fail("para/absent-sub-code", ctx); return; }
                if (!nv.empty() || !defs.empty()) { fail("para/invalid-request-touched-driver", ctx + ": " + std::to_string(nv.size()) + " NVM calls, " + std::to_string(defs.size()) + " default callbacks"); return; }
                for (size_t i = 0; i < g.size(); i++) if (ramOf(i) != ramBefore[i]) { fail("para/invalid-request-touched-ram", ctx); return; }
                if (S().nvm != nvmBefore) { fail("para/invalid-request-touched-nvm", ctx); return; }
                return;
            }
            std::vector<int> adr = addressed(sub); nontrivial = true;
            if (!store) {
                std::vector<int> exp; for (int gi : adr) if (g[(size_t)gi].enabled) exp.push_back(gi); std::vector<int> got; for (auto &e : defs) got.push_back((int)e.a);
                if (got != exp) { fail("para/restore-groups", ctx + ": default callback invoked for " + std::to_string(got.size()) + " groups, expected " + std::to_string(exp.size())); return; }
                if (ab != 0) { fail("para/restore-refused", ctx); return; } if (!nv.empty()) { fail("para/restore-touched-nvm", ctx); return; }
                cov.hit(adr.size() > 1 ? "restore-all" : "restore-one"); return;
            }
            // store: exactly one write per addressed enabled group, in order, with the RAM bytes
            std::vector<int> exp; for (int gi : adr) if (g[(size_t)gi].enabled) exp.push_back(gi); else cov.hit("store-disabled-group");
            size_t i = 0; bool failedWrite = false;
            for (; i < nv.size(); i++) {
                const Ev &e = nv[i]; if (e.kind != EV_NVMW) { fail("para/store-reads-nvm", ctx); return; }
                if (i >= exp.size()) { fail("para/store-extra-write", ctx + ": more NVM writes than addressed enabled groups"); return; }
                Grp &x = g[(size_t)exp[i]]; if ((uint32_t)e.a != x.offset || (uint32_t)e.b != x.size) { fail("para/store-wrong-range", ctx + ": write " + std::to_string(e.a) + "+" + std::to_string(e.b) + ", group has " + std::to_string(x.offset) + "+" + std::to_string(x.size)); return; }
                uint32_t n = (uint32_t)e.c; for (uint32_t b = 0; b < n; b++) x.nvmModel[b] = ramBefore[(size_t)exp[i]][b];
                if (n != x.size) { failedWrite = true; x.torn = true; injected = true; cov.hit("F8-nvm-short-write"); if (i + 1 < exp.size()) cov.hit("short-write-not-last-group"); i++; break; } else x.torn = false;
            }
            if (failedWrite) { if (ab == 0) { fail("para/short-write-confirmed", ctx + ": the NVM driver reported a short write but the request was confirmed"); return; } if (i < nv.size()) { /* groups after the hit one may or may not be written */ for (; i < nv.size(); i++) { const Ev &e = nv[i]; for (auto &x : g) if (x.offset == (uint32_t)e.a && (uint32_t)e.c == x.size) memcpy(x.nvmModel.data(), &S().nvm[x.offset], x.size); } } }
            else { if (i != exp.size() || nv.size() != exp.size()) { fail("para/store-missing-write", ctx + ": " + std::to_string(nv.size()) + " NVM writes, expected " + std::to_string(exp.size())); return; } if (ab != 0) { fail("para/store-refused", ctx); return; } cov.hit(adr.size() > 1 ? "save-all" : "save-one"); }
            for (size_t q = 0; q < g.size(); q++) if (ramOf(q) != ramBefore[q]) { fail("para/store-changed-ram", ctx); return; }
            std::set<int> none; if (v.ok) for (size_t q = 0; q < g.size(); q++) if (memcmp(&S().nvm[g[q].offset], g[q].nvmModel.data(), g[q].size) != 0) { fail("para/nvm-content", "NVM range of group " + std::to_string(q) + " differs from the model after " + ctx); return; }
        }
        else if (k == "mcram") { armG = (int)((uint64_t)o.arg(0) % g.size()); armB = (uint32_t)o.arg(1) % g[(size_t)armG].size; armV = (uint8_t)o.arg(2); armed = true;   // application code in CONmtModeChange(INIT): puts one of its variables - part of a parameter group - into a safe state when the node leaves for a reset
            if (!hooked) { hooked = true; w.onModeChange = [this](int mode) { if (armedReal && mode == CO_INIT) { armedReal = false; S().paraRam[(size_t)armG][armB] = armV; } }; } armedReal = true; return; }
        // (mcram) the write happens when the node enters INIT, i.e. before the groups are reloaded: a reloaded group shows the stored image, any other group keeps the written byte
        else if (k == "nmt") { uint8_t cs = (uint8_t)o.arg(0); if (cs != 129 && cs != 130) return; snapRam();
            if (armed) { armed = false; ramPrev[(size_t)armG][armB] = armV; cov.hit("application-writes-a-stored-parameter-in-the-init-callback"); nontrivial = true; } if (fKind == 1) presetShortReset(cs == 129); deliver(Frame(0, 2, {cs, 0})); CO_ERR err = CONodeGetErr(N()); afterLoad(mk, cs == 129, true, err, cs == 129 ? "NMT reset node" : "NMT reset communication"); cov.hit(cs == 129 ? "reset-node" : "reset-communication"); }
        else if (k == "powercycle") { armed = armedReal = false; for (auto &x : g) x.ramUnknown = false; buildNode(false); cov.hit("F10-power-cycle"); boot("power cycle"); }
        safety();
        writesPerOp.push_back((uint32_t)(S().nvmWrites - w0)); readsPerOp.push_back((uint32_t)(S().nvmReads - r0));
    }
    void presetShortReset(bool node) { uint64_t idx = S().nvmReads; auto visit = [&](int type) { for (int s = 1; s <= nSub; s++) { int gi = grpOfSub(s); if (gi < 0 || g[(size_t)gi].type != type) continue; if ((int64_t)idx == fK) S().nvmReadShort = shortLen(g[(size_t)gi].size); idx++; } }; if (node) visit(CO_RESET_NODE); visit(CO_RESET_COM); }
    Verdict run() {
        setup();
        writesPerOp.push_back((uint32_t)S().nvmWrites); readsPerOp.push_back((uint32_t)S().nvmReads);
        for (opi = 0; opi < (int)plan.ops.size() && v.ok; opi++) {
            const Op &o = plan.ops[(size_t)opi]; w.opIndex = (uint32_t)opi; cov.ops++;
            op(o);
            Hash h; h.str(o.k); h.u64((uint64_t)nSub); h.u64((uint64_t)fKind + 1); for (auto &x : g) { h.u64(x.torn); h.u64(x.enabled); h.u64((uint64_t)x.type); } if (o.k == "store" || o.k == "restore") { h.u64((uint64_t)(o.arg(0) % (nSub + 2))); h.u64(o.arg(1) == 0x65766173 || o.arg(1) == 0x64616F6C); } cov.pairs.insert(h.h); trace.u64(h.h); cov.states.insert(h.h);
        }
        if (fKind >= 0 && !injected) cov.hit("fault-armed-not-reached");
        finish(); return v;
    }
};

Plan gen_para(Rng &r, bool thorough) {
    Plan p; int nsub = (int)r.pick<int64_t>({1, 1, 2, 3, 4, 5}); p.cfg["nsub"] = nsub; p.cfg["base"] = r.pick<int64_t>({0, 0, 3, 16}); size_t ng = nsub == 1 ? 1 : (size_t)nsub - 1;
    for (size_t i = 0; i < ng; i++) { p.cfg["size" + std::to_string(i)] = r.chance(1, 2) ? r.range(1, 8) : r.range(1, 64); p.cfg["gap" + std::to_string(i)] = r.below(3); p.cfg["type" + std::to_string(i)] = r.below(2); p.cfg["en" + std::to_string(i)] = r.chance(4, 6) ? 1 : r.pick<int64_t>({0, 2, 2, 3}); }
    if (nsub >= 3 && r.chance(1, 4)) p.cfg["subgap"] = r.range(2, nsub);   // a sub-index that is not implemented
    int n = (int)r.range(2, thorough ? 16 : 10);
    for (int i = 0; i < n; i++) {
        int c = (int)r.below(20);
        if (c < 6) p.ops.push_back(Op("ram", {(int64_t)r.below((uint32_t)ng), (int64_t)r.below(64), (int64_t)r.byte()}));
        else if (c < 13) { int64_t sig = r.chance(3, 4) ? 0x65766173 : r.pick<int64_t>({0x65766172, 0x73617665, 0, 0x64616F6C, 0x65766173 ^ 0x01000000, 0x00766173}); p.ops.push_back(Op("store", {r.chance(4, 5) ? r.range(1, nsub) : r.range(0, nsub + 1), sig})); }
        else if (c < 16) { int64_t sig = r.chance(3, 4) ? 0x64616F6C : r.pick<int64_t>({0x64616F6D, 0x6C6F6164, 0, 0x65766173}); p.ops.push_back(Op("restore", {r.chance(4, 5) ? r.range(1, nsub) : r.range(0, nsub + 1), sig})); }
        else if (c < 18) p.ops.push_back(Op("nmt", {r.pick<int64_t>({129, 130})}));
        else if (c == 18 && r.chance(1, 2)) { p.ops.push_back(Op("mcram", {(int64_t)r.below((uint32_t)ng), (int64_t)r.below(64), (int64_t)r.byte()})); p.ops.push_back(Op("nmt", {r.pick<int64_t>({129, 130})})); }
        else if (c == 18) p.ops.push_back(Op("read", {(int64_t)r.below(2), r.chance(1, 2) ? 0 : r.range(0, nsub + 1)}));
        else p.ops.push_back(Op("powercycle"));
    }
    if (r.chance(1, 2)) p.ops.push_back(Op("powercycle"));
    return p;
}
// variant 1 = the generated plan without fault (it has none); variants 2.. = one restart point or one NVM call fault each
std::vector<Plan> sweep_para(const Plan &base) {
    std::vector<Plan> out; Cov dummy; ParaRun r(base, dummy, false); (void)r.run();
    // restart points: after every operation
    for (size_t i = 0; i + 1 < base.ops.size(); i++) { Plan q = base; q.ops.insert(q.ops.begin() + (long)i + 1, Op("powercycle")); out.push_back(q); }
    uint32_t writes = 0, reads = 0; for (uint32_t x : r.writesPerOp) writes += x; for (uint32_t x : r.readsPerOp) reads += x; if (!r.writesPerOp.empty()) { writes = 0; for (size_t i = 1; i < r.writesPerOp.size(); i++) writes += r.writesPerOp[i]; writes += r.writesPerOp[0]; }
    // absolute call counters were recorded in slot state; use totals from the dry run
    uint64_t totW = r.w.s[0].nvmWrites, totR = r.w.s[0].nvmReads; (void)writes; (void)reads;
    for (uint64_t k = 0; k < totW && k < 40; k++) for (int cls = 0; cls < 4; cls++) { Plan q = base; q.ops.insert(q.ops.begin(), Op("fault", {0, (int64_t)k, cls})); out.push_back(q); }
    for (uint64_t k = 0; k < totR && k < 60; k++) for (int cls : {0, 2, 3}) { Plan q = base; q.ops.insert(q.ops.begin(), Op("fault", {1, (int64_t)k, cls})); out.push_back(q); }
    return out;
}
Reg r17({"para", "C17", gen_para, [](const Plan &p, Cov &c, bool vb) { ParaRun x(p, c, vb); return x.run(); }, sweep_para, [](const Plan &p) { Plan c = p; c.ops.erase(std::remove_if(c.ops.begin(), c.ops.end(), [](const Op &o) { return o.k == "fault"; }), c.ops.end()); return c; }});

} // namespace
} // namespace sim
