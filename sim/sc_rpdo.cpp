// C13 (rpdo): receive PDOs - payload distribution, dummies, synchronous application - against a dictionary image model.
#include "node_env.hpp"

namespace sim {
namespace {

enum { M_INVALID = 0, M_INIT = 1, M_PREOP = 2, M_OP = 3, M_STOP = 4 };
struct RMap { bool dummy; uint8_t sub; uint8_t bytes; uint16_t dummyIdx; };
struct RObj { uint8_t sub; uint8_t width; };
struct RpdoModel { bool exists = false, valid = true; uint8_t type = 254; uint32_t id = 0; std::vector<RMap> map; uint32_t mapped = 0; int hasNew = 0; /* 0 no, 1 yes, 2 unknown */ uint8_t buf[8]; bool sync() const { return type <= 240; } };

struct RpdoRun : NodeEnv {
    bool txArmed = false, txHooked = false; size_t txFiredAt = 0;
    bool lowIdx = false; int nTpdo = 0;   // nTpdo > 0: synchronous / event TPDOs with the same channel numbers share the SYNC bookkeeping and the mapped objects with the RPDOs
    bool tpdoFrame(const Frame &f) const { if (!nTpdo || (f.id & 0x7F) != nodeId) return false; uint32_t fc = f.id & 0x780; return fc == 0x180 || fc == 0x280 || fc == 0x380 || fc == 0x480; }
    void dropTpdo(Fx &fx) { fx.tx.erase(std::remove_if(fx.tx.begin(), fx.tx.end(), [this](const Frame &f) { return tpdoFrame(f); }), fx.tx.end()); }
    int m = M_PREOP; std::vector<RpdoModel> R; std::vector<RObj> objs; std::map<uint8_t, uint32_t> val; std::map<uint8_t, uint16_t> altIdx;
    uint16_t ix(uint8_t sub) const { auto it = altIdx.find(sub); return it == altIdx.end() ? (uint16_t)0x2100 : it->second; }   // most objects live at 2100h:sub, some at indices whose low byte looks like a data type entry (2005h, 6007h, 6402h)
    RpdoRun(const Plan &p, Cov &c, bool vb) : NodeEnv(p, c, vb) {}
    void build() {
        nodeId = 1; freq = 1000;
        add_mandatory(specs, 1);
        add_typed(specs, T_SYNCID, 0x1005, 0, CO_OBJ_____RW, 0x80); add_typed(specs, T_SYNCCYCLE, 0x1006, 0, CO_OBJ_____RW, 0);
        add_u8(specs, 0x2100, 0, CO_OBJ_D___R_, 12);
        // CiA 301 allows a dictionary to publish the static data type entries 0002h..0007h; a dummy mapping still only skips its bytes
        lowIdx = plan.c("lowidx", 0) != 0; if (lowIdx) { add_u32(specs, 0x0005, 0, CO_OBJ_____R_, 8); add_u32(specs, 0x0006, 0, CO_OBJ_____R_, 16); add_u32(specs, 0x0007, 0, CO_OBJ_____R_, 32); cov.hit("dictionary-publishes-data-type-entries"); }
        int no = 0;
        for (auto &o : plan.ops) if (o.k == "obj" && no < 12) { no++; RObj d{(uint8_t)no, (uint8_t)(o.arg(0) == 1 ? 1 : o.arg(0) == 2 ? 2 : 4)}; objs.push_back(d); if (o.arg(3) > 0) { static const uint16_t alt[] = {0x2005, 0x6007, 0x6402, 0x2F03, 0x2002}; altIdx[d.sub] = alt[(o.arg(3) - 1) % 5]; cov.hit("mapped-object-index-with-low-byte-of-a-data-type"); } uint32_t init = (uint32_t)o.arg(2) & (d.width == 4 ? 0xFFFFFFFFu : ((1u << (8 * d.width)) - 1));
            add_typed(specs, d.width == 1 ? T_U8 : d.width == 2 ? T_U16 : T_U32, ix(d.sub), d.sub, (uint8_t)(CO_OBJ____PRW | (o.arg(1) ? CO_OBJ_D_____ : 0)), init); val[d.sub] = init; }
        R.assign(CO_RPDO_N, RpdoModel());
        for (auto &o : plan.ops) if (o.k == "rpdocfg") {
            int n = (int)(o.arg(0) % CO_RPDO_N); RpdoModel &r = R[(size_t)n]; if (r.exists) continue; r.exists = true; r.valid = o.arg(1) != 0; r.type = (uint8_t)o.arg(2); r.id = 0x200u + 0x100u * (uint32_t)n + nodeId;
            std::vector<uint32_t> links; uint32_t total = 0;
            for (size_t i = 0; i + 1 < o.b.size(); i += 2) {
                uint8_t sel = o.b[i], opt = o.b[i + 1]; RMap me;
                if (sel >= 200 || objs.empty()) { static const uint8_t dw[6] = {1, 2, 4, 1, 2, 4}; int di = opt % 6; me = {true, 0, dw[di], (uint16_t)(2 + di)}; }
                else { const RObj &d = objs[sel % objs.size()]; bool dup = false; for (auto &x : r.map) if (!x.dummy && x.sub == d.sub) dup = true; if (dup) continue; me = {false, d.sub, (uint8_t)(d.width == 4 && (opt & 1) ? 3 : d.width), 0}; }
                if (total + me.bytes > 8 || r.map.size() >= 8) break; total += me.bytes; r.map.push_back(me);
                links.push_back(me.dummy ? CO_LINK(me.dummyIdx, 0, me.bytes * 8) : CO_LINK(ix(me.sub), me.sub, me.bytes * 8));
            }
            r.mapped = total;
            add_rpdo(specs, n, r.id | (r.valid ? 0 : 0x80000000u), r.type, links, false);
        }
        nTpdo = objs.empty() ? 0 : (int)std::min<int64_t>(plan.c("tpdos", 0), CO_TPDO_N);
        for (int n = 0; n < nTpdo; n++) add_tpdo(specs, n, 0x40000180u + 0x100u * (uint32_t)n + nodeId, (uint8_t)(plan.c("tpdotype", 1) ? 1 : 254), 0, 0, {CO_LINK(ix(objs[(size_t)n % objs.size()].sub), objs[(size_t)n % objs.size()].sub, objs[(size_t)n % objs.size()].width * 8)}, true);
        if (nTpdo) cov.hit("tpdos-share-channel-numbers-and-objects-with-rpdos");
        NodeCfg cfg; cfg.nodeId = nodeId; cfg.freq = freq; cfg.tmrNum = 8;
        w.build(0, cfg, specs); w.init(0); w.start(0);
        if (CONodeGetErr(N()) != CO_ERR_NONE) fail("setup/node-error", "node reports an error after initialisation");
    }
    void apply(RpdoModel &r, const uint8_t *d) {
        int pos = 0; for (auto &me : r.map) { if (!me.dummy) { uint32_t v = 0; for (int b = 0; b < me.bytes; b++) v |= (uint32_t)d[pos + b] << (8 * b); val[me.sub] = v; } pos += me.bytes; }
    }
    bool imageOk(std::string &why) { for (auto &d : objs) { uint32_t st = w.raw(0, ix(d.sub), d.sub); if (st != val[d.sub]) { why = "object 2100h:" + std::to_string(d.sub) + " holds " + hex(st) + ", model " + hex(val[d.sub]); return false; } } return true; }
    void op(const Op &o) {
        const std::string &k = o.k; if (k == "obj" || k == "rpdocfg") return;
        if (k == "rpdoburst") { int64_t cnt = std::min<int64_t>(o.arg(1), 1100); cov.hit("rpdo-burst-of-256-or-more-between-syncs", cnt >= 256 ? 1 : 0); for (int64_t i = 0; i < cnt && v.ok; i++) op(Op("rpdo", {o.arg(0), 0, 8}, o.b)); return; }   // many receptions of one RPDO before the next SYNC, each judged on its own
        size_t mk = w.mark(); int expSyncUpd = 0, maybeSyncUpd = 0; int expRecv = -1;
        std::map<uint8_t, uint32_t> before = val; std::vector<std::map<uint8_t, uint32_t>> alts;   // alternative images (unknown buffered frame)
        if (k == "tick") w.tick(0, (uint64_t)o.arg(0));
        else if (k == "lost") {   // F6: the CAN driver reports an error (or nothing) for an announced RPDO / SYNC frame: nothing was received, nothing may change
            int n = (int)(o.arg(0) % CO_RPDO_N); Frame f = o.arg(2) ? Frame(0x80, 0, {}) : Frame(R[(size_t)n].exists ? R[(size_t)n].id : 0x201, 8, o.b);
            if (o.arg(1)) S().readErr = 1; else S().readEmpty = 1; w.rx(0, f); w.canproc(0); S().rx.clear(); S().readErr = 0; S().readEmpty = 0; cov.hit("F6-can-read-error"); expRecv = 0;
        }
        else if (k == "nmt") { uint8_t cs = (uint8_t)o.arg(0); deliver(Frame(0, 2, {cs, 0})); int old = m; if (cs == 1) m = M_OP; else if (cs == 2) m = M_STOP; else if (cs == 128 || cs == 129 || cs == 130) m = M_PREOP;
            if (old != m) for (auto &r : R) if (r.hasNew == 1) { r.hasNew = 2; cov.hit("nmt-change-with-buffered-frame"); } if (cs == 129 || cs == 130) for (auto &r : R) r.hasNew = 0; }
        else if (k == "rcvret") { S().pdoReceiveRet = (int)o.arg(0); }
        else if (k == "tpdowr") {   // reconfiguration of the TPDO with the same channel number while an RPDO frame may be buffered: the RPDO side must not notice
            if (!nTpdo || m == M_STOP || m == M_INIT) return; int n = (int)(o.arg(0) % nTpdo); uint32_t id = 0x40000180u + 0x100u * (uint32_t)n + nodeId;
            if (o.arg(1) == 0) (void)sdoWrite((uint16_t)(0x1800 + n), 1, id | 0x80000000u, 4); else if (o.arg(1) == 1) (void)sdoWrite((uint16_t)(0x1800 + n), 1, id, 4); else (void)sdoWrite((uint16_t)(0x1800 + n), 2, (uint32_t)(o.arg(2) & 1 ? 1 : 254), 1);
            cov.hit("tpdo-reconfigured-next-to-rpdo"); for (auto &r : R) if (r.hasNew == 1) { cov.hit("tpdo-reconfigured-while-rpdo-frame-buffered"); nontrivial = true; } }
        else if (k == "wr") { if (objs.empty()) return; const RObj &d = objs[(size_t)o.arg(0) % objs.size()]; uint32_t v2 = (uint32_t)o.arg(1) & (d.width == 4 ? 0xFFFFFFFFu : ((1u << (8 * d.width)) - 1)); w.cur = 0; CO_ERR e = d.width == 1 ? CODictWrByte(&N()->Dict, CO_DEV(ix(d.sub), d.sub), (uint8_t)v2) : d.width == 2 ? CODictWrWord(&N()->Dict, CO_DEV(ix(d.sub), d.sub), (uint16_t)v2) : CODictWrLong(&N()->Dict, CO_DEV(ix(d.sub), d.sub), v2); if (e != CO_ERR_NONE) { fail("rpdo/api-write-refused", "dictionary write returned " + std::to_string((int)e)); return; } val[d.sub] = v2; }
        else if (k == "rpdo") {
            int n = (int)(o.arg(0) % CO_RPDO_N); int delta = (int)o.arg(1); RpdoModel &r = R[(size_t)n]; uint32_t id = (0x200u + 0x100u * (uint32_t)n + nodeId + (uint32_t)delta) & 0x7FF; if (id == 0x601 || id == 0x80 || id == 0) return;
            uint8_t dlc = (uint8_t)o.arg(2, 8); if (dlc > 8) dlc = 8; if (delta == 0 && r.exists && dlc < r.mapped) dlc = 8;     // DLC below the mapped length: not constrained, not generated
            Frame f(id, dlc, o.b); bool match = false; RpdoModel *hit = nullptr; for (auto &x : R) if (x.exists && x.valid && x.id == id) { match = true; hit = &x; }
            Fx fx = deliver(f); dropTpdo(fx);
            if (m == M_OP && match) {
                expRecv = 1; if (fx.appRx) fail("rpdo/consumed-and-passed-on", "RPDO also handed to the application callback");
                if (S().pdoReceiveRet == 0) { if (!hit->sync()) { apply(*hit, f.d); cov.hit("async-applied"); } else { memcpy(hit->buf, f.d, 8); if (hit->hasNew == 1) cov.hit("sync-frame-overwritten"); hit->hasNew = 1; cov.hit("sync-frame-buffered"); } bool anyDummy = false; for (auto &me : hit->map) anyDummy |= me.dummy; if (anyDummy) { cov.hit("mapping-with-dummy"); nontrivial = true; } }
                else cov.hit("application-consumed-rpdo");
            } else { expRecv = 0; if (m == M_STOP ? fx.appRx > 1 : fx.appRx != 1) fail("rpdo/unclaimed-not-passed-on", "frame " + hex(id) + " in mode " + std::to_string(m) + " handed to the application callback " + std::to_string(fx.appRx) + " times"); cov.hit(match ? "rpdo-outside-op" : "non-rpdo-frame"); }
            if (!fx.tx.empty()) fail("rpdo/tx", "transmission on RPDO reception: " + fx.tx[0].str());
        }
        else if (k == "txscript") { if (!nTpdo) return; txArmed = true; if (!txHooked) { txHooked = true; w.onPdoTransmit = [this](const Frame &) { if (!txArmed) return; txArmed = false; txFiredAt = w.evs.size(); CONmtSetMode(&N()->Nmt, CO_PREOP); }; } return; }   // application code in COPdoTransmit: leaves OPERATIONAL (e.g. on a fault it just reported)
        else if (k == "sync") {
            txFiredAt = 0; Fx fx = deliver(Frame(0x80, 0, {})); dropTpdo(fx);
            if (txFiredAt && m == M_OP) {   // a synchronous TPDO went out on this SYNC and its transmit callback took the node to PRE-OPERATIONAL: what was applied before that instant is in order, nothing may be written after it
                cov.hit("left-operational-from-inside-the-transmit-callback-of-a-sync-tpdo"); nontrivial = true;
                for (size_t i = mk; i < w.evs.size(); i++) { const Ev &e = w.evs[i]; if (e.kind != EV_SYNCUPDATE) continue; if (i >= txFiredAt) { fail("rpdo/written-outside-operational", "synchronous RPDO " + std::to_string(e.a) + " applied after the node had left OPERATIONAL (inside the same SYNC)"); return; }
                    RpdoModel &r = R[(size_t)e.a % R.size()]; if (r.exists && r.valid && r.sync() && r.hasNew) { if (r.hasNew == 1) { apply(r, r.buf); expSyncUpd++; } else { maybeSyncUpd++; for (auto &me : r.map) if (!me.dummy) val[me.sub] = w.raw(0, ix(me.sub), me.sub); } r.hasNew = 0; } }
                for (auto &r : R) if (r.hasNew == 1) r.hasNew = 2; m = M_PREOP;
            } else if (m == M_OP) { for (auto &r : R) if (r.exists && r.valid && r.sync()) { if (r.hasNew == 1) { apply(r, r.buf); r.hasNew = 0; expSyncUpd++; cov.hit("sync-applied"); nontrivial = true; } else if (r.hasNew == 2) { std::map<uint8_t, uint32_t> keep = val; apply(r, r.buf); alts.push_back(val); val = keep; r.hasNew = 0; maybeSyncUpd++; } else cov.hit("sync-without-reception"); } }
            else { cov.hit("sync-outside-op"); if (m == M_PREOP) for (auto &r : R) if (r.hasNew) { r.hasNew = 0; cov.hit("buffered-frame-missed-its-sync"); } }   // the SYNC that follows the reception is recognised but may change nothing: the frame's chance has passed
            if (!fx.tx.empty()) fail("rpdo/tx", "transmission on SYNC: " + fx.tx[0].str());
        }
        safety(); if (!v.ok) return;
        // dictionary image after the operation
        if (lowIdx && (w.raw(0, 0x0005, 0) != 8 || w.raw(0, 0x0006, 0) != 16 || w.raw(0, 0x0007, 0) != 32)) { fail("rpdo/dummy-wrote-object", "a data type entry (0005h..0007h) of the dictionary was overwritten during " + k); return; }
        std::string why; bool ok = imageOk(why);
        if (!ok && !alts.empty()) { for (auto &a : alts) { std::map<uint8_t, uint32_t> keep = val; val = a; std::string w2; if (imageOk(w2)) { ok = true; break; } val = keep; } }
        if (!ok) {
            bool changedAtAll = false; for (auto &d : objs) if (w.raw(0, ix(d.sub), d.sub) != before[d.sub]) changedAtAll = true;
            const char *rule = k == "sync" ? (m == M_OP ? "rpdo/sync-application" : "rpdo/sync-outside-op-changed-objects") : k == "rpdo" ? (m == M_OP ? (changedAtAll ? "rpdo/payload-distribution" : "rpdo/not-applied") : "rpdo/outside-op-changed-objects") : "rpdo/image";
            fail(rule, why + " after " + k + " in mode " + std::to_string(m)); return;
        }
        int su = 0, rc = 0; for (size_t i = mk; i < w.evs.size(); i++) { if (w.evs[i].kind == EV_SYNCUPDATE) su++; if (w.evs[i].kind == EV_PDORECEIVE) rc++; }
        if (su < expSyncUpd || su > expSyncUpd + maybeSyncUpd) fail("rpdo/sync-update-callback", "COPdoSyncUpdate called " + std::to_string(su) + " times, expected " + std::to_string(expSyncUpd) + " during " + k);
        if (expRecv >= 0 && rc != expRecv) fail("rpdo/receive-callback", "COPdoReceive called " + std::to_string(rc) + " times, expected " + std::to_string(expRecv));
    }
    Verdict run() {
        build();
        for (opi = 0; opi < (int)plan.ops.size() && v.ok; opi++) {
            const Op &o = plan.ops[(size_t)opi]; w.opIndex = (uint32_t)opi; cov.ops++;
            op(o);
            if (o.k == "obj" || o.k == "rpdocfg") continue;
            Hash h; h.str(o.k); h.u64((uint64_t)m); for (auto &r : R) { h.u64(r.exists); h.u64(r.valid); h.u64(r.sync()); h.u64((uint64_t)r.hasNew); } if (o.k == "rpdo") { h.u64((uint64_t)(o.arg(0) % CO_RPDO_N)); h.u64((uint64_t)o.arg(1)); } cov.pairs.insert(h.h); trace.u64(h.h); cov.states.insert(h.h);
        }
        finish(); return v;
    }
};

Plan gen_rpdo(Rng &r, bool thorough) {
    Plan p; int nobj = (int)r.range(1, 10); p.cfg["lowidx"] = r.chance(1, 4); bool tp = r.chance(1, 3); p.cfg["tpdos"] = tp ? (int64_t)r.range(1, 4) : 0; p.cfg["tpdotype"] = r.chance(3, 4);
    for (int i = 0; i < nobj; i++) p.ops.push_back(Op("obj", {r.pick<int64_t>({1, 1, 2, 2, 4, 4}), (int64_t)r.below(2), (int64_t)r.below(0x10000) * 65537, r.chance(1, 5) ? r.range(1, 5) : 0}));
    for (int n = 0; n < 4; n++) if (r.chance(2, 3)) { Op c("rpdocfg", {n, (int64_t)r.chance(5, 6), r.chance(1, 2) ? r.pick<int64_t>({1, 1, 2, 240}) : r.pick<int64_t>({254, 255})}); int nm = (int)r.range(1, 8); for (int j = 0; j < nm; j++) { c.b.push_back(r.chance(1, 4) ? 200 : (uint8_t)r.below((uint32_t)nobj)); c.b.push_back(r.byte()); } p.ops.push_back(c); }
    if (r.chance(9, 10)) p.ops.push_back(Op("nmt", {1}));
    int n = (int)r.range(3, thorough ? 50 : 25);
    for (int i = 0; i < n; i++) {
        int c = (int)r.below(20);
        if (c < 9 && r.chance(1, 40)) { std::vector<uint8_t> b; for (int j = 0; j < 8; j++) b.push_back(r.byte()); p.ops.push_back(Op("rpdoburst", {(int64_t)r.below(4), r.pick<int64_t>({255, 256, 256, 257, 512, 300})}, b)); p.ops.push_back(Op("sync")); }
        else if (c < 9) { std::vector<uint8_t> b; for (int j = 0; j < 8; j++) b.push_back(r.byte()); p.ops.push_back(Op("rpdo", {(int64_t)r.below(4), r.chance(5, 6) ? 0 : r.pick<int64_t>({1, -1, 0x80}), r.chance(5, 6) ? 8 : (int64_t)r.below(9)}, b)); }
        else if (c < 14) p.ops.push_back(Op("sync"));
        else if (c < 16) p.ops.push_back(Op("wr", {(int64_t)r.below((uint32_t)nobj), (int64_t)r.below(0x10000) * 65537}));
        else if (c < 18) p.ops.push_back(Op("nmt", {r.pick<int64_t>({1, 1, 2, 128, 128, 130})}));
        else if (c == 18 && tp && r.chance(1, 3)) { p.ops.push_back(Op("txscript")); if (r.chance(1, 2)) { std::vector<uint8_t> b; for (int j = 0; j < 8; j++) b.push_back(r.byte()); p.ops.push_back(Op("rpdo", {(int64_t)r.below(4), 0, 8}, b)); } p.ops.push_back(Op("sync")); if (r.chance(1, 2)) p.ops.push_back(Op("nmt", {1})); }
        else if (c == 18 && tp) p.ops.push_back(Op("tpdowr", {(int64_t)r.below(4), (int64_t)r.below(3), (int64_t)r.below(2)}));
        else if (c == 18) p.ops.push_back(Op("rcvret", {(int64_t)r.below(2)}));
        else if (r.chance(1, 2)) { std::vector<uint8_t> b; for (int j = 0; j < 8; j++) b.push_back(r.byte()); p.ops.push_back(Op("lost", {(int64_t)r.below(4), (int64_t)r.below(2), (int64_t)r.chance(1, 3)}, b)); }
        else p.ops.push_back(Op("tick", {r.range(1, 10)}));
    }
    return p;
}
Reg r13({"rpdo", "C13", gen_rpdo, [](const Plan &p, Cov &c, bool vb) { RpdoRun x(p, c, vb); return x.run(); }, nullptr, nullptr});

} // namespace
} // namespace sim
