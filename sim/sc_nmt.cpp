// C09 (nmt): NMT slave state machine and per-state service gating against a reference model.
#include "node_env.hpp"

namespace sim {
namespace {

enum { M_INVALID = 0, M_INIT = 1, M_PREOP = 2, M_OP = 3, M_STOP = 4 };

struct NmtRun : NodeEnv {
    int m = M_INIT;                 // model mode
    int rrMode = 0, rrReal = 0; bool rrHooked = false;   // application code in CONmtResetRequest (model side / real side)
    uint8_t consNode = 0; int prevHbState = 0; bool hbArmed = false; uint32_t hbMs = 0; int variant = 0; uint32_t rpdoId = 0;
    uint8_t syncCount = 0;
    // TPDO 0 may have an inhibit time: a trigger inside the window is deferred to its end - and must still respect the NMT gate then
    uint64_t inhTicks = 0, inhEnd = 0; bool inhibited = false, pending = false;
    // RPDO 1 is synchronous (type 1): its frame is buffered and applied by the next SYNC - in OPERATIONAL only
    int sBuf = 0; /* 0 nothing buffered, 1 buffered, 2 buffered when OPERATIONAL was left: may or may not survive */ uint8_t sVal = 0;
    NmtRun(const Plan &p, Cov &c, bool vb) : NodeEnv(p, c, vb) {}

    void build() {
        nodeId = (uint8_t)plan.c("nodeid", 1); if (nodeId < 1 || nodeId > 126) nodeId = 1; freq = 1000;
        consNode = (uint8_t)(nodeId + 1); hbMs = (uint32_t)plan.c("hb", 10); variant = (int)plan.c("variant", 0); inhTicks = (uint64_t)plan.c("inh", 0); if (inhTicks > 500) inhTicks = 500;
        add_mandatory(specs, 1);
        add_typed(specs, T_EMCYHIST, 0x1003, 0, CO_OBJ_____RW, 0); add_typed(specs, T_EMCYHIST, 0x1003, 1, CO_OBJ_____R_, 0); add_typed(specs, T_EMCYHIST, 0x1003, 2, CO_OBJ_____R_, 0);
        add_typed(specs, T_SYNCID, 0x1005, 0, CO_OBJ_____RW, 0x80); add_typed(specs, T_SYNCCYCLE, 0x1006, 0, CO_OBJ_____RW, 0);
        add_typed(specs, T_EMCYID, 0x1014, 0, CO_OBJ__N__RW, 0x80);
        add_typed(specs, T_HBCONS, 0x1016, 0, CO_OBJ_D___R_, 1); add_typed(specs, T_HBCONS, 0x1016, 1, CO_OBJ_____RW, 50, consNode);
        add_typed(specs, T_HBPROD, 0x1017, 0, CO_OBJ_____RW, hbMs);
        rpdoId = variant == 1 ? 0x80u : variant == 2 ? 0x600u + nodeId : 0x200u + nodeId;
        add_rpdo(specs, 0, rpdoId, 254, {CO_LINK(0x2100, 1, 8)}, false);
        add_rpdo(specs, 1, 0x300u + nodeId, 1, {CO_LINK(0x2100, 4, 8)}, false);
        add_tpdo(specs, 0, 0x40000180u + nodeId, 254, (uint16_t)(inhTicks * 10), 0, {CO_LINK(0x2100, 2, 8)}, false);
        add_tpdo(specs, 1, 0x40000280u + nodeId, 1, 0, 0, {CO_LINK(0x2100, 3, 8)}, false);
        add_u8(specs, 0x2100, 0, CO_OBJ_D___R_, 4); add_u8(specs, 0x2100, 1, CO_OBJ____PRW, 0x11); add_u8(specs, 0x2100, 2, CO_OBJ____PRW, 0x22); add_u8(specs, 0x2100, 3, CO_OBJ____PRW, 0x33); add_u8(specs, 0x2100, 4, CO_OBJ____PRW, 0x44);
        NodeCfg cfg; cfg.nodeId = nodeId; cfg.freq = freq; cfg.tmrNum = 16;
        w.build(0, cfg, specs, {}, {{1, 0x2000}, {2, 0x3000}});
        w.init(0);
        if (CONodeGetErr(N()) != CO_ERR_NONE) fail("setup/node-error", "node reports an error after initialisation");
    }
    void expectMode(const char *where) { if (mode() != m) fail("mode", std::string("CONmtGetMode = ") + std::to_string(mode()) + ", model " + std::to_string(m) + " after " + where); }
    int bootups(const Fx &fx) { int n = 0; for (auto &t : fx.tx) if (t.id == 0x700u + nodeId && t.dlc == 1 && t.d[0] == 0) n++; return n; }
    // mode change callbacks: 'finalOnly' tolerates intermediate callbacks (resets)
    void checkModeCb(const Fx &fx, int oldM, int newM, bool reset, const char *where) {
        std::vector<int> cbs; for (auto &e : fx.evs) if (e.kind == EV_MODECHANGE) cbs.push_back((int)e.a);
        if (reset) { if (oldM != newM || !cbs.empty()) { if (cbs.empty() || cbs.back() != newM) fail("modechange/final", std::string("last mode-change callback is not the final mode after ") + where); } return; }
        if (oldM == newM) { if (!cbs.empty()) fail("modechange/spurious", std::string("mode-change callback although the mode did not change: ") + where); }
        else if (cbs.size() != 1 || cbs[0] != newM) fail("modechange/missing", std::string("expected exactly one mode-change callback with mode ") + std::to_string(newM) + " after " + where);
    }
    void onReset() { prevHbState = 0; hbArmed = false; syncCount = 0; inhibited = pending = false; sBuf = 0; }
    void modeChanged(int old) { if (m == M_OP && old != M_OP) inhibited = pending = false; if (m == M_INVALID) { inhibited = pending = false; sBuf = 0; } if (old == M_OP && m != M_OP && sBuf == 1) { sBuf = 2; cov.hit("left-operational-with-buffered-sync-rpdo"); } }   // (re-)entering OPERATIONAL re-initialises the TPDOs
    // TPDO frames the model expects while time advances from t0 to t1 (the inhibit timer runs in every mode; only OPERATIONAL may send)
    int deferredDue(uint64_t t1) {
        int n = 0;
        while (inhibited && inhEnd <= t1) { inhibited = false; if (pending) { pending = false; if (m == M_OP) { n++; inhibited = true; inhEnd += inhTicks; cov.hit("deferred-tpdo-sent-at-inhibit-end"); } else { cov.hit("deferred-tpdo-dropped-outside-operational"); nontrivial = true; } } }
        return n;
    }
    // a frame no service claims
    void expectUnclaimed(const Fx &fx, const char *what) {
        if (!fx.tx.empty()) { fail("unclaimed/tx", std::string("transmission in reaction to ") + what + ": " + fx.tx[0].str()); return; }
        bool strictOnce = m == M_INIT || m == M_PREOP || m == M_OP;
        if (strictOnce ? fx.appRx != 1 : fx.appRx > 1) fail("unclaimed/app-callback", std::string(what) + " handed to the application callback " + std::to_string(fx.appRx) + " times in mode " + std::to_string(m));
    }
    void expectClaimed(const Fx &fx, const char *what) { if (fx.appRx != 0) fail("claimed/app-callback", std::string(what) + " was also handed to the application callback in mode " + std::to_string(m)); }

    void op(const Op &o) {
        const std::string &k = o.k;
        if (k == "start") { size_t mk = w.mark(); w.start(0); Fx fx = collect(mk); int old = m; if (m == M_INIT) m = M_PREOP; modeChanged(old); if (bootups(fx) != (old == M_INIT ? 1 : 0)) fail("bootup/start", "boot-up frames after CONodeStart: " + std::to_string(bootups(fx))); checkModeCb(fx, old, m, false, "CONodeStart"); }
        else if (k == "nmt") {
            uint8_t cs = (uint8_t)o.arg(0), tg = (uint8_t)o.arg(1); int dlc = (int)o.arg(2, 2); Frame f(0, (uint8_t)dlc, {cs, tg}); int old = m;
            Fx fx = deliver(f); if (dlc < 2) { if (!rrReal) rrMode = 0; /* the script may have run in this unconstrained reaction */ m = mode(); modeChanged(old); if (bootups(fx)) onReset(); return; }   // DLC < 2: not constrained
            bool listens = m == M_PREOP || m == M_OP || m == M_STOP; bool mine = tg == nodeId || tg == 0; bool reset = false;
            if (listens && mine) { if (cs == 1) m = M_OP; else if (cs == 2) m = M_STOP; else if (cs == 128) m = M_PREOP; else if (cs == 129 || cs == 130) { m = M_PREOP; reset = true; } }
            if (reset && rrMode) { m = rrMode; rrMode = 0; cov.hit("mode-set-from-inside-the-reset-request-callback"); }   // the application's CONmtResetRequest switched the freshly reset node on (or off) again: that is the mode it is in afterwards
            modeChanged(old); if (pending && old == M_OP && m != M_OP) cov.hit("left-operational-with-deferred-tpdo");
            if (listens) expectClaimed(fx, "NMT command"); else expectUnclaimed(fx, "NMT command");
            int rr = 0, rrType = 0; for (auto &e : fx.evs) if (e.kind == EV_RESETREQ) { rr++; rrType = (int)e.a; }
            if (rr != (reset ? 1 : 0) || (reset && rrType != (cs == 129 ? CO_RESET_NODE : CO_RESET_COM))) fail("resetrequest", "reset-request callbacks: " + std::to_string(rr) + " type " + std::to_string(rrType) + " for cs " + std::to_string(cs));
            if (bootups(fx) != (reset ? 1 : 0)) fail("bootup/nmt", std::to_string(bootups(fx)) + " boot-up frames after NMT cs " + std::to_string(cs) + " target " + std::to_string(tg) + " in mode " + std::to_string(old));
            for (auto &t : fx.tx) if (!(t.id == 0x700u + nodeId)) fail("nmt/tx", "unexpected transmission after an NMT command: " + t.str());
            checkModeCb(fx, old, m, reset, "NMT command"); if (reset) { onReset(); cov.hit("nmt-reset"); }
            if (listens && !mine) cov.hit("nmt-foreign-target"); if (listens && mine && !reset && m == old && (cs == 1 || cs == 2 || cs == 128)) cov.hit("nmt-same-state");
            if (listens && mine && !(cs == 1 || cs == 2 || cs == 128 || cs == 129 || cs == 130)) cov.hit("nmt-unknown-cs");
        }
        else if (k == "rrscript") { int nm = (int)o.arg(0); if (nm != M_OP && nm != M_STOP) return; rrMode = nm; rrReal = nm; if (!rrHooked) { rrHooked = true; w.onResetRequest = [this](int) { if (!rrReal) return; int nm2 = rrReal; rrReal = 0; CONmtSetMode(&N()->Nmt, (CO_MODE)nm2); }; } return; }
        else if (k == "setmode") { int nm = (int)o.arg(0); if (m == M_INIT || m == M_INVALID || nm < M_PREOP || nm > M_STOP) return; size_t mk = w.mark(); int old = m; w.cur = 0; CONmtSetMode(&N()->Nmt, (CO_MODE)nm); m = nm; modeChanged(old); if (pending && old == M_OP && m != M_OP) cov.hit("left-operational-with-deferred-tpdo"); Fx fx = collect(mk); if (!fx.tx.empty()) fail("setmode/tx", "transmission on CONmtSetMode"); checkModeCb(fx, old, m, false, "CONmtSetMode"); }
        else if (k == "reset") { if (m == M_INVALID) return; size_t mk = w.mark(); int old = m; w.cur = 0; CONmtReset(&N()->Nmt, o.arg(0) ? CO_RESET_NODE : CO_RESET_COM); Fx fx = collect(mk); if (old != M_INIT) m = M_PREOP; if (bootups(fx) != (old != M_INIT ? 1 : 0)) fail("bootup/api-reset", std::to_string(bootups(fx)) + " boot-up frames after CONmtReset in mode " + std::to_string(old)); checkModeCb(fx, old, m, true, "CONmtReset"); onReset(); cov.hit("api-reset"); }
        else if (k == "stop") { if (m == M_INVALID) return; size_t mk = w.mark(); w.cur = 0; CONodeStop(N()); Fx fx = collect(mk); m = M_INVALID; modeChanged(M_OP); if (!fx.tx.empty()) fail("stop/tx", "transmission on CONodeStop"); cov.hit("node-stop"); }
        else if (k == "reinit") { if (m != M_INVALID) return; S().rx.clear(); w.init(0); m = M_INIT; onReset(); (void)CONodeGetErr(N()); }
        else if (k == "p_sdo") {
            Frame f(0x600u + nodeId, 8, {0x40, 0x00, 0x10, 0, 0, 0, 0, 0}); Fx fx = deliver(f);
            if (variant == 2 && m == M_OP) { /* the RPDO shares the identifier: at most one service */ int sdoResp = 0; for (auto &t : fx.tx) if (t.id == 0x580u + nodeId) sdoResp++; bool pdoWrote = w.raw(0, 0x2100, 1) == 0x40; if (sdoResp + (pdoWrote ? 1 : 0) > 1) fail("one-service/sdo-and-pdo", "one frame was served by the SDO server and by an RPDO"); w.setraw(0, 0x2100, 1, 0x11); expectClaimed(fx, "SDO request"); return; }
            if (m == M_PREOP || m == M_OP) { if (fx.tx.size() != 1 || fx.tx[0].id != 0x580u + nodeId || fx.tx[0].d[0] != 0x43 || fx.tx[0].u32(4) != 0x191) fail("gating/sdo-not-served", "SDO upload of 1000h not answered correctly in mode " + std::to_string(m)); expectClaimed(fx, "SDO request"); }
            else expectUnclaimed(fx, "SDO request");
        }
        else if (k == "p_rpdo") {
            uint8_t val = (uint8_t)o.arg(0); Frame f(rpdoId, 1, {val}); uint32_t before = w.raw(0, 0x2100, 1); Fx fx = deliver(f);
            if (variant == 2 && (m == M_PREOP || m == M_OP)) { w.setraw(0, 0x2100, 1, before); return; }   // identifier shared with the SDO server: claimed by SDO
            if (variant == 1 && (m == M_PREOP)) { expectClaimed(fx, "SYNC/RPDO frame"); if (w.raw(0, 0x2100, 1) != before) fail("gating/rpdo-outside-op", "RPDO changed its object in PRE-OPERATIONAL"); return; }
            if (m == M_OP) { if (w.raw(0, 0x2100, 1) != val) fail("gating/rpdo-not-applied", "RPDO did not write its object in OPERATIONAL"); expectClaimed(fx, "RPDO"); int pr = 0; for (auto &e : fx.evs) if (e.kind == EV_PDORECEIVE) pr++; if (pr != 1) fail("rpdo/receive-callback", "COPdoReceive called " + std::to_string(pr) + " times"); if (variant == 1) { /* at most one service: must not also count as SYNC */ for (auto &t : fx.tx) if (t.id == 0x280u + nodeId) fail("one-service/rpdo-and-sync", "a frame consumed as RPDO also triggered the synchronous TPDO"); } else if (!fx.tx.empty()) fail("rpdo/tx", "transmission on RPDO reception"); }
            else { if (w.raw(0, 0x2100, 1) != before) fail("gating/rpdo-outside-op", "RPDO changed its object in mode " + std::to_string(m)); expectUnclaimed(fx, "RPDO frame"); }
        }
        else if (k == "p_readerr") {   // F6: the CAN driver reports a read error (or nothing) although a frame was announced: nothing was received, so nothing may happen
            if (m == M_INVALID) return; int kind = (int)o.arg(0) % 4; Frame f = kind == 0 ? Frame(0, 2, {(uint8_t)(m == M_OP ? 2 : 1), nodeId}) : kind == 1 ? Frame(0x600u + nodeId, 8, {0x40, 0x00, 0x10, 0, 0, 0, 0, 0}) : kind == 2 ? Frame(0x123, 8, {1, 2, 3, 4, 5, 6, 7, 8}) : Frame(0, 2, {130, 0});
            if (o.arg(1)) S().readErr = 1; else S().readEmpty = 1; size_t mk = w.mark(); w.rx(0, f); w.canproc(0); Fx fx = collect(mk); S().rx.clear(); S().readErr = 0; S().readEmpty = 0;
            cov.hit(o.arg(1) ? "F6-can-read-error" : "F6-can-read-nothing"); nontrivial = true;
            for (auto &e : fx.evs) if (e.kind == EV_TX || e.kind == EV_TXFAIL || e.kind == EV_CANRECEIVE || e.kind == EV_MODECHANGE || e.kind == EV_RESETREQ || e.kind == EV_PDORECEIVE) { fail("read-error/frame-handled", "the CAN driver delivered no frame, yet the node reacted (event kind " + std::to_string((int)e.kind) + ")"); return; }
        }
        else if (k == "p_srpdo") {
            if (variant != 0) return; uint8_t val = (uint8_t)o.arg(0); uint32_t before = w.raw(0, 0x2100, 4); Fx fx = deliver(Frame(0x300u + nodeId, 1, {val}));
            if (w.raw(0, 0x2100, 4) != before) { fail(m == M_OP ? "rpdo/sync-applied-on-reception" : "gating/rpdo-outside-op", "a synchronous RPDO changed its object on reception in mode " + std::to_string(m)); return; }
            if (m == M_OP) { expectClaimed(fx, "synchronous RPDO"); sBuf = 1; sVal = val; if (!fx.tx.empty()) fail("rpdo/tx", "transmission on RPDO reception"); } else expectUnclaimed(fx, "RPDO frame");
        }
        else if (k == "p_sync") {
            if (variant == 1) return;
            uint32_t b1 = w.raw(0, 0x2100, 1), b4 = w.raw(0, 0x2100, 4); Fx fx = deliver(Frame(0x80, 0, {}));
            { uint32_t a4 = w.raw(0, 0x2100, 4);
              if (m == M_OP) { if (sBuf == 1 && a4 != sVal) { fail("gating/sync-rpdo-not-applied", "SYNC in OPERATIONAL did not apply the buffered synchronous RPDO"); return; } if (sBuf == 0 && a4 != b4) { fail("sync/object-changed", "SYNC changed the object of the synchronous RPDO although nothing was buffered"); return; } if (sBuf == 2 && a4 != b4 && a4 != sVal) { fail("sync/object-changed", "SYNC wrote a value that was never received"); return; } if (sBuf == 1) cov.hit("sync-rpdo-applied"); sBuf = 0; }
              else if (a4 != b4) { fail("gating/sync-rpdo-outside-op", "SYNC in mode " + std::to_string(m) + " wrote the buffered synchronous RPDO into its object"); return; }
              else if (sBuf == 2) { cov.hit("sync-outside-operational-with-buffered-rpdo"); nontrivial = true; } }
            if (m == M_OP) { int n = 0; for (auto &t : fx.tx) { if (t.id == 0x280u + nodeId && t.dlc == 1 && t.d[0] == (uint8_t)w.raw(0, 0x2100, 3)) n++; else fail("sync/tx", "unexpected frame on SYNC: " + t.str()); } if (n != 1) fail("gating/sync-tpdo", "type-1 TPDO sent " + std::to_string(n) + " times on SYNC in OPERATIONAL"); expectClaimed(fx, "SYNC"); }
            else if (m == M_PREOP) { if (!fx.tx.empty()) fail("gating/sync-tx-preop", "transmission on SYNC in PRE-OPERATIONAL: " + fx.tx[0].str()); expectClaimed(fx, "SYNC"); }
            else expectUnclaimed(fx, "SYNC frame");
            if (w.raw(0, 0x2100, 1) != b1) fail("sync/object-changed", "SYNC changed an RPDO-mapped object although no synchronous RPDO exists");
        }
        else if (k == "p_hb") {
            uint8_t st = (uint8_t)o.arg(0); Frame f(0x700u + consNode, 1, {st}); Fx fx = deliver(f);
            if (m == M_PREOP || m == M_OP || m == M_STOP) { expectClaimed(fx, "heartbeat of the monitored node"); if (!fx.tx.empty()) fail("hbcons/tx", "transmission on heartbeat reception"); int decoded = st == 0 ? 1 : st == 127 ? 2 : st == 5 ? 3 : st == 4 ? 4 : 0; int ch = 0; for (auto &e : fx.evs) if (e.kind == EV_HBCHANGE) ch++; if (ch != (decoded != prevHbState ? 1 : 0)) fail("hbcons/change-callback", "state-change callbacks: " + std::to_string(ch)); prevHbState = decoded; hbArmed = true; }
            else expectUnclaimed(fx, "heartbeat frame");
        }
        else if (k == "p_lss") { Fx fx = deliver(Frame(0x7E5, 8, {4, (uint8_t)o.arg(0), 0, 0, 0, 0, 0, 0})); if (fx.appRx) fail("lss/app-callback", "LSS frame handed to the application callback"); if (!fx.tx.empty()) fail("lss/tx", "transmission on LSS switch state global"); for (auto &e : fx.evs) if (e.kind == EV_MODECHANGE || e.kind == EV_PDORECEIVE) fail("lss/other-service", "LSS frame reached another service"); }
        else if (k == "p_foreign") { uint32_t id = (uint32_t)o.arg(0); if (id == 0 || id == 0x80 || id == rpdoId || id == 0x600u + nodeId || id == 0x700u + consNode || id == 0x7E5) return; Frame f(id, 8, o.b); Fx fx = deliver(f); expectUnclaimed(fx, "foreign frame"); }
        else if (k == "p_emcy") {
            size_t mk = w.mark(); w.cur = 0; COEmcySet(&N()->Emcy, (uint8_t)(o.arg(0) & 1), nullptr); Fx a = collect(mk); mk = w.mark(); COEmcyClr(&N()->Emcy, (uint8_t)(o.arg(0) & 1)); Fx b = collect(mk);
            size_t exp = (m == M_PREOP || m == M_OP) ? 1 : 0;
            if (a.tx.size() != exp || b.tx.size() != exp) fail("gating/emcy", "EMCY frames " + std::to_string(a.tx.size()) + "/" + std::to_string(b.tx.size()) + " in mode " + std::to_string(m));
            for (auto &t : a.tx) if (t.id != 0x80u + nodeId || t.dlc != 8) fail("emcy/frame", t.str());
        }
        else if (k == "p_trig") { size_t mk = w.mark(); w.cur = 0; COTPdoTrigPdo(N()->TPdo, 0); Fx fx = collect(mk); size_t exp = m == M_OP ? 1 : 0;
            if (m == M_OP && inhibited) { exp = 0; pending = true; cov.hit("trigger-inside-inhibit-window"); } else if (m == M_OP && inhTicks) { inhibited = true; inhEnd = now() + inhTicks; } if (fx.tx.size() != exp) fail("gating/tpdo", "triggered TPDO sent " + std::to_string(fx.tx.size()) + " frames in mode " + std::to_string(m)); for (auto &t : fx.tx) if (t.id != 0x180u + nodeId || t.dlc != 1 || t.d[0] != (uint8_t)w.raw(0, 0x2100, 2)) fail("tpdo/frame", t.str()); }
        else if (k == "p_tick") {
            size_t mk = w.mark(); w.tick(0, hbMs ? hbMs : 3); Fx fx = collect(mk);       // exactly one producer period
            int expPdo = m == M_INVALID ? 0 : deferredDue(now()), gotPdo = 0; for (auto &t : fx.tx) if (t.id == 0x180u + nodeId && t.dlc == 1 && t.d[0] == (uint8_t)w.raw(0, 0x2100, 2)) gotPdo++;
            if (gotPdo != expPdo) { fail(m != M_OP ? "gating/tpdo-deferred" : "tpdo/deferred-count", std::to_string(gotPdo) + " deferred TPDO frames while ticking in mode " + std::to_string(m) + ", model " + std::to_string(expPdo)); return; }
            if (hbMs == 0) { for (auto &t : fx.tx) if (!(t.id == 0x180u + nodeId)) fail("tick/tx", "unexpected frame while idle: " + t.str()); return; }
            int hb = 0; for (auto &t : fx.tx) { if (t.id == 0x180u + nodeId && t.dlc == 1) continue; if (t.id == 0x700u + nodeId && t.dlc == 1) { hb++; uint8_t expState = m == M_PREOP ? 127 : m == M_OP ? 5 : 4; if (t.d[0] != expState) fail("hbprod/state-byte", "heartbeat carries " + std::to_string(t.d[0]) + " in mode " + std::to_string(m)); } else fail("tick/tx", "unexpected frame while idle: " + t.str()); }
            bool expHb = m == M_PREOP || m == M_OP || m == M_STOP;
            if (m == M_INVALID) { if (hb) fail("hbprod/after-stop", "heartbeat after CONodeStop"); }
            else if (m == M_INIT) { if (hb) fail("gating/hb-in-init", "heartbeat in INIT"); }
            else if (expHb && hb != 1) fail("gating/hb-producer", std::to_string(hb) + " heartbeats in one period in mode " + std::to_string(m));
            for (auto &e : fx.evs) if (e.kind == EV_HBEVENT) hbArmed = false;
        }
        if (w.fatal) fail("fatal", "fatal error callback");
        expectMode(k.c_str());
    }
    Verdict run() {
        build();
        for (opi = 0; opi < (int)plan.ops.size() && v.ok; opi++) {
            const Op &o = plan.ops[(size_t)opi]; w.opIndex = (uint32_t)opi; cov.ops++; int before = m;
            op(o);
            Hash h; h.u64((uint64_t)before); h.str(o.k); if (o.k == "nmt") { h.u64((uint64_t)o.arg(0)); h.u64(o.arg(1) == nodeId ? 1 : o.arg(1) == 0 ? 0 : 2); } cov.pairs.insert(h.h); trace.u64(h.h); Hash s2; s2.u64((uint64_t)m); s2.u64((uint64_t)variant); cov.states.insert(s2.h);
            cov.hit(std::string("mode") + std::to_string(before) + "-" + o.k);
            if (before != m) nontrivial = true;
        }
        finish(); return v;
    }
};

Plan gen_nmt(Rng &r, bool thorough) {
    Plan p; p.cfg["nodeid"] = r.pick<int64_t>({1, 2, 10, 100, 126}); p.cfg["hb"] = r.pick<int64_t>({0, 5, 10, 50}); p.cfg["variant"] = r.chance(1, 4) ? r.range(1, 2) : 0; p.cfg["inh"] = r.chance(1, 2) ? 0 : r.pick<int64_t>({3, 7, 20, 60, 120});
    int64_t nid = p.cfg["nodeid"];
    if (r.chance(9, 10)) p.ops.push_back(Op("start"));
    int n = (int)r.range(2, thorough ? 40 : 20);
    for (int i = 0; i < n; i++) {
        int c = (int)r.below(20);
        if (c < 6) p.ops.push_back(Op("nmt", {r.pick<int64_t>({1, 2, 128, 129, 130, 1, 2, 128, 0, 3, 127, 255}), r.pick<int64_t>({nid, nid, nid, 0, 0, nid + 1, nid - 1, 127}), r.chance(1, 12) ? (int64_t)r.below(2) : 2}));
        else if (c == 6 && r.chance(1, 3)) { p.ops.push_back(Op("rrscript", {r.pick<int64_t>({3, 3, 4})})); if (r.chance(2, 3)) p.ops.push_back(Op("nmt", {r.pick<int64_t>({129, 130}), r.chance(1, 2) ? 0 : 1, 2})); }
        else if (c == 6) p.ops.push_back(Op("setmode", {r.range(2, 4)}));
        else if (c == 7) p.ops.push_back(r.chance(1, 2) ? Op("reset", {(int64_t)r.below(2)}) : Op("start"));
        else if (c == 8) { if (r.chance(1, 3)) { p.ops.push_back(Op("stop")); if (r.chance(2, 3)) { p.ops.push_back(Op("p_foreign", {0x123}, {1, 2, 3})); p.ops.push_back(Op("reinit")); p.ops.push_back(Op("start")); } } else p.ops.push_back(Op("p_lss", {(int64_t)r.below(2)})); }
        else if (c == 9) p.ops.push_back(r.chance(1, 4) ? Op("p_readerr", {(int64_t)r.below(4), (int64_t)r.below(2)}) : Op("p_sdo"));
        else if (c == 10) p.ops.push_back(Op(r.chance(1, 3) ? "p_srpdo" : "p_rpdo", {(int64_t)r.range(1, 255)}));
        else if (c == 11) p.ops.push_back(Op("p_sync"));
        else if (c == 12) p.ops.push_back(Op("p_hb", {r.pick<int64_t>({0, 4, 5, 127, 5, 5})}));
        else if (c == 13) p.ops.push_back(Op("p_foreign", {r.pick<int64_t>({0x123, 0x7FF, 0x100, 0x481, 0x581, 0x77F, 0x1FFFFFFF, 0x7E4})}, {r.byte(), r.byte(), r.byte()}));
        else if (c == 14) p.ops.push_back(Op("p_emcy", {(int64_t)r.below(2)}));
        else if (c == 15) { p.ops.push_back(Op("p_trig")); if (r.chance(1, 2)) p.ops.push_back(Op("p_trig")); }
        else p.ops.push_back(Op("p_tick"));
    }
    // a synchronous RPDO buffered in OPERATIONAL, the state left before its SYNC, the SYNC outside OPERATIONAL
    if (p.cfg["variant"] == 0 && r.chance(1, 4)) { p.ops.push_back(Op("nmt", {1, nid, 2})); p.ops.push_back(Op("p_srpdo", {(int64_t)r.range(1, 255)})); if (r.chance(3, 4)) p.ops.push_back(Op("nmt", {r.pick<int64_t>({128, 128, 2}), nid, 2})); p.ops.push_back(Op("p_sync")); if (r.chance(1, 2)) { p.ops.push_back(Op("nmt", {1, nid, 2})); p.ops.push_back(Op("p_sync")); } }
    // a TPDO event deferred by the inhibit time, the state left before the window ends, ticks across its end
    if (p.cfg["inh"] && r.chance(1, 3)) { p.ops.push_back(Op("nmt", {1, nid, 2})); p.ops.push_back(Op("p_trig")); p.ops.push_back(Op("p_trig")); if (r.chance(1, 3)) { p.ops.push_back(Op("p_tick")); p.ops.push_back(Op("p_trig")); } p.ops.push_back(r.chance(1, 4) ? Op("setmode", {r.pick<int64_t>({2, 4})}) : Op("nmt", {r.pick<int64_t>({2, 128, 2, 128, 130}), nid, 2})); int k = (int)r.range(1, 4); for (int i = 0; i < k; i++) p.ops.push_back(Op("p_tick")); if (r.chance(1, 2)) { p.ops.push_back(Op("nmt", {1, nid, 2})); p.ops.push_back(Op("p_tick")); } }
    return p;
}
Reg r09({"nmt", "C09", gen_nmt, [](const Plan &p, Cov &c, bool vb) { NmtRun x(p, c, vb); return x.run(); }, nullptr, nullptr});

} // namespace
} // namespace sim
