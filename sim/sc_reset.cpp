// C20 (reset_eq): differential check - after any history, [reset; P] on node A must be indistinguishable from
// [fresh init + start with A's dictionary values; P] on node B. The real code is its own oracle.
#include "node_env.hpp"

namespace sim {
namespace {

struct ResetRun : NodeEnv {
    bool split = false; bool para = false; uint8_t defId = 1; std::vector<int> appTimers; std::vector<ObjSpec> base;
    std::vector<std::pair<uint8_t, uint16_t>> emcyTbl = mkTbl();
    static std::vector<std::pair<uint8_t, uint16_t>> mkTbl() { std::vector<std::pair<uint8_t, uint16_t>> t = {{1, 0x2100}, {2, 0x3100}, {1, 0x2200}}; for (int i = 3; i < CO_EMCY_N && i < 27; i++) t.push_back({(uint8_t)(1 + i % 5), (uint16_t)(0x4000 + 0x100 * i)}); return t; }   // as many emergencies as the build allows (identifiers up to 26: several storage bytes)
    uint8_t *cbuf[2][CO_CSDO_N];
    int scripts = 0; bool armCb = false, cbFired = false; int cbType = 0; size_t cbMk = 0, cbMk2 = 0;   // reset requested by the application from inside CONmtHbConsEvent
    ResetRun(const Plan &p, Cov &c, bool vb) : NodeEnv(p, c, vb) { memset(cbuf, 0, sizeof cbuf); self = this; }
    ~ResetRun() { self = nullptr; for (auto &a : cbuf) for (auto &b : a) free(b); }
    static void appCb(void *) {}
    // completion callback of the SDO client: logs; with a retry budget (script bit 16) it starts the same upload again when the transfer failed - also when that happens inside a reset
    static void doneCb(CO_CSDO *csdo, uint16_t index, uint8_t sub, uint32_t code) { if (!W) return; W->ev(EV_CSDODONE, (int64_t)(csdo - W->S().node->CSdo), ((int64_t)index << 8) | sub, (int64_t)code);
        ResetRun *g = self; int sl = W->cur; if (g && code != 0 && g->retry[sl] > 0 && g->cbuf[sl][0] && csdo == &W->S().node->CSdo[0]) { g->retry[sl]--; g->cov.hit("client-request-from-inside-the-completion-callback"); CO_ERR e = COCSdoRequestUpload(csdo, CO_DEV(0x2000, 1), g->cbuf[sl][0], g->cbufSize[sl], doneCb, 25); W->ev(EV_NOTE, 77, (int64_t)e); } }
    static ResetRun *self; int retry[2] = {0, 0}; uint32_t cbufSize[2] = {1, 1};
    void dict(std::vector<ObjSpec> &v) {
        add_mandatory(v, CO_SSDO_N);
        add_typed(v, T_SYNCID, 0x1005, 0, CO_OBJ_____RW, plan.c("syncprod", 0) ? 0x40000080u : 0x80u); add_typed(v, T_SYNCCYCLE, 0x1006, 0, CO_OBJ_____RW, (uint32_t)plan.c("synccycle", 5000));
        add_typed(v, T_EMCYID, 0x1014, 0, CO_OBJ__N__RW, 0x80);
        add_typed(v, T_HBCONS, 0x1016, 0, CO_OBJ_D___R_, 2); add_typed(v, T_HBCONS, 0x1016, 1, CO_OBJ_____RW, (uint32_t)plan.c("cons0", 20), 20); add_typed(v, T_HBCONS, 0x1016, 2, CO_OBJ_____RW, (uint32_t)plan.c("cons1", 0), 21);
        add_typed(v, T_HBPROD, 0x1017, 0, CO_OBJ_____RW, (uint32_t)plan.c("hb", 10));
        add_u8(v, 0x1280, 0, CO_OBJ_D___R_, 3); add_u32(v, 0x1280, 1, CO_OBJ_D___R_, 0x600); add_u32(v, 0x1280, 2, CO_OBJ_D___R_, 0x580); add_u8(v, 0x1280, 3, CO_OBJ_D___R_, 9);
        add_rpdo(v, 0, 0x201, 254, {CO_LINK(0x2100, 1, 8), CO_LINK(0x2100, 2, 16)}, true);
        add_rpdo(v, 1, 0x301, 1, {CO_LINK(0x2100, 3, 32)}, true);
        add_tpdo(v, 0, 0x40000181u, 254, (uint16_t)plan.c("inh0", 30), (uint16_t)plan.c("ev0", 7), {CO_LINK(0x2100, 4, 8), CO_LINK(0x2100, 2, 16)}, true);
        add_tpdo(v, 1, 0x40000281u, 1, 0, 0, {CO_LINK(0x2100, 5, 16)}, true);
        add_u8(v, 0x2100, 0, CO_OBJ_D___R_, 6); add_u8(v, 0x2100, 1, CO_OBJ____PRW, 1); add_u16(v, 0x2100, 2, CO_OBJ____PRW, 2); add_u32(v, 0x2100, 3, CO_OBJ____PRW, 3); add_u8(v, 0x2100, 4, CO_OBJ___APRW, 4); add_u16(v, 0x2100, 5, CO_OBJ____PRW, 5); add_u32(v, 0x2100, 6, CO_OBJ_____RW, 6);
        std::vector<uint8_t> dom(40); for (size_t i = 0; i < dom.size(); i++) dom[i] = (uint8_t)(i * 3 + 1); add_domain(v, 0x2200, 0, CO_OBJ_____RW, dom);
        add_string(v, 0x2201, 0, {'c', 'o', 's', 'i', 'm', '-', 'r', 'e', 's', 'e', 't'});
        // 'para': the configuration of other services lives, by reference, inside parameter groups (1010h): a COM group with 1017h, 1005h, 1006h, 1014h and - where a second
        // SDO server exists - its writable COB-IDs 1201h:1/2; a NODE group with two application values. A reset reloads them from NVM; every service must then work with what was loaded.
        if (para) {
            add_typed(v, T_PARASTORE, 0x1010, 0, CO_OBJ_D___R_, 2); add_typed(v, T_PARASTORE, 0x1010, 1, CO_OBJ_____RW, 0, 0); add_typed(v, T_PARASTORE, 0x1010, 2, CO_OBJ_____RW, 0, 1);
            auto ref = [&](uint16_t idx, uint8_t sub, int g, uint32_t off, int flags = -1) { for (auto &o : v) if (o.idx == idx && o.sub == sub) { o.pgrp = g; o.poff = off; o.flags = (uint8_t)(flags >= 0 ? flags : (o.flags & ~CO_OBJ_D_____)); } };
            ref(0x1017, 0, 0, 0); ref(0x1005, 0, 0, 4); ref(0x1006, 0, 0, 8); ref(0x1014, 0, 0, 12);
            if (CO_SSDO_N > 1) { ref(0x1201, 1, 0, 16, CO_OBJ__N__RW); ref(0x1201, 2, 0, 20, CO_OBJ__N__RW); }
            ref(0x2100, 6, 1, 0); ref(0x2100, 2, 1, 4);
        }
    }
    std::vector<ParaSpec> paraSpecs() { std::vector<ParaSpec> ps; if (para) { ParaSpec a; a.offset = 0; a.size = 24; a.type = CO_RESET_COM; ps.push_back(a); ParaSpec b; b.offset = 24; b.size = 8; b.type = CO_RESET_NODE; ps.push_back(b); } return ps; }
    void build() {
        defId = 1; freq = 1000; para = plan.c("para", 0) != 0; dict(base);
        NodeCfg cfg; cfg.nodeId = defId; cfg.freq = freq; cfg.tmrNum = 32;
        w.build(0, cfg, base, paraSpecs(), emcyTbl, para ? 32 : 0);
        if (para) { for (size_t g = 0; g < w.s[0].paras.size(); g++) memcpy(&w.s[0].nvm[w.s[0].paras[g]->Offset], w.s[0].paraRam[g], w.s[0].paras[g]->Size); cov.hit("configuration-of-other-services-held-in-parameter-groups"); }   // NVM as programmed at production: the initial values
        w.init(0); w.start(0);
        if (CONodeGetErr(w.N(0)) != CO_ERR_NONE) fail("setup/node-error", "node reports an error after initialisation");
        // application code inside other callbacks (armed by 'script', the same for both nodes): writes a mapped asynchronous object from COPdoReceive, triggers a TPDO from COPdoSyncUpdate,
        // raises / clears an emergency from CONmtModeChange, rewrites the heartbeat producer time from CONmtHbConsChange
        w.onPdoReceive = [this](const Frame &f) { if (scripts & 1) (void)CODictWrByte(&w.N(w.cur)->Dict, CO_DEV(0x2100, 4), f.d[0]); };
        w.onSyncUpdate = [this](int) { if (scripts & 2) COTPdoTrigPdo(w.N(w.cur)->TPdo, 0); };
        w.onModeChange = [this](int mode) { if (scripts & 4) { if (mode == CO_OPERATIONAL) COEmcySet(&w.N(w.cur)->Emcy, 1, nullptr); else COEmcyClr(&w.N(w.cur)->Emcy, 1); } };
        w.onHbConsChange = [this](uint8_t, int state) { if (scripts & 8) (void)CODictWrWord(&w.N(w.cur)->Dict, CO_DEV(0x1017, 0), state == CO_OPERATIONAL ? 10 : 5); };
        // application code inside CONmtHbConsEvent: a device that restarts its communication when its master's heartbeat is lost.
        // The reset runs inside COTmrProcess (timer callback -> CONmtHbConsMonitor -> CONmtHbConsEvent); node B is created at that very instant.
        w.onHbConsEvent = [this](uint8_t) {
            if (!armCb || split || w.cur != 0) return;
            armCb = false; w.s[0].sendFail = 0; cbMk = w.evs.size(); int keepScripts = scripts; scripts = 0;
            CONmtReset(&w.N(0)->Nmt, cbType ? CO_RESET_NODE : CO_RESET_COM);
            if (CONmtGetMode(&w.N(0)->Nmt) != CO_PREOP) { scripts = keepScripts; return; }
            cbFired = true; split = true; cbMk2 = w.evs.size(); makeB(); w.cur = 0; scripts = keepScripts;
        };
    }
    // fresh node B holding A's dictionary values
    void makeB() {
        std::vector<ObjSpec> v = w.s[0].specs;
        for (auto &o : v) { if (o.type == T_DOMAIN) { o.bytes = w.bytes(0, o.idx, o.sub); } else if (o.type == T_STRING) { /* constant */ } else if (o.type == T_HBCONS && o.sub > 0) { uint32_t r = w.raw(0, o.idx, o.sub); o.val = r & 0xFFFF; o.aux = (int)(r >> 16 & 0xFF); } else o.val = w.raw(0, o.idx, o.sub); }
        NodeCfg cfg; cfg.nodeId = defId; cfg.freq = freq; cfg.tmrNum = 32;
        w.s[1].lssStored = w.s[0].lssStored; w.s[1].lssBaud = w.s[0].lssBaud; w.s[1].lssNode = w.s[0].lssNode;
        bool st = w.s[0].lssStored; uint32_t sb = w.s[0].lssBaud; uint8_t sn = w.s[0].lssNode;
        w.build(1, cfg, v, paraSpecs(), emcyTbl, para ? 32 : 0); w.s[1].lssStored = st; w.s[1].lssBaud = sb; w.s[1].lssNode = sn;
        if (para) for (size_t g = 0; g < w.s[1].paras.size(); g++) memcpy(&w.s[1].nvm[w.s[1].paras[g]->Offset], w.s[1].paraRam[g], w.s[1].paras[g]->Size);   // B's non-volatile memory holds A's current values: its initialisation loads exactly them
        w.s[1].now = w.s[0].now; w.s[1].pdoReceiveRet = w.s[0].pdoReceiveRet;
        w.init(1); w.start(1); retry[1] = retry[0];
        (void)CONodeGetErr(w.N(0)); (void)CONodeGetErr(w.N(1));
    }
    // observable trace of one operation on one slot
    struct Obs { std::vector<std::string> ev; int lastMode = -1; };
    Obs observe(size_t mk, int sl) {
        Obs o;
        for (size_t i = mk; i < w.evs.size(); i++) { const Ev &e = w.evs[i]; if (e.slot != sl) continue; char b[160];
            switch (e.kind) {
            case EV_TX: case EV_TXFAIL: snprintf(b, sizeof b, "%s t=%llu %s", e.kind == EV_TX ? "tx" : "txfail", (unsigned long long)e.tick, e.f.str().c_str()); o.ev.push_back(b); cov.frames_out++; break;
            case EV_CANRECEIVE: snprintf(b, sizeof b, "app-rx %s", e.f.str().c_str()); o.ev.push_back(b); break;
            case EV_PDOTRANSMIT: snprintf(b, sizeof b, "pdo-tx %s", e.f.str().c_str()); o.ev.push_back(b); break;
            case EV_PDORECEIVE: snprintf(b, sizeof b, "pdo-rx %s", e.f.str().c_str()); o.ev.push_back(b); break;
            case EV_SYNCUPDATE: snprintf(b, sizeof b, "sync-update %lld", (long long)e.a); o.ev.push_back(b); break;
            case EV_HBEVENT: snprintf(b, sizeof b, "hb-event t=%llu node %lld", (unsigned long long)e.tick, (long long)e.a); o.ev.push_back(b); break;
            case EV_HBCHANGE: snprintf(b, sizeof b, "hb-change node %lld state %lld", (long long)e.a, (long long)e.b); o.ev.push_back(b); break;
            case EV_CSDODONE: snprintf(b, sizeof b, "csdo-done t=%llu client %lld mux %llX code %llX", (unsigned long long)e.tick, (long long)e.a, (long long)e.b, (long long)e.c); o.ev.push_back(b); break;
            case EV_LSSSTORE: snprintf(b, sizeof b, "lss-store %lld %lld", (long long)e.a, (long long)e.b); o.ev.push_back(b); break;
            case EV_FATAL: o.ev.push_back("fatal"); break;
            case EV_MODECHANGE: o.lastMode = (int)e.a; break;
            default: break; }
        }
        return o;
    }
    // apply one operation to a slot
    int apply(const Op &o, int sl) {
        const std::string &k = o.k; int rc = 0; w.cur = sl; CO_NODE *n = w.N(sl);
        if (k == "tick") w.tick(sl, (uint64_t)o.arg(0));
        else if (k == "sendfail") { w.s[sl].sendFail = (int)(o.arg(0) % 4); cov.hit("F5-can-send-failure"); }                                  // the next n frames are refused by the CAN driver
        else if (k == "isr") { int n = (int)(o.arg(0) % 400) + 1; for (int i = 0; i < n; i++) w.isr(sl); cov.hit("F13-ticks-served-not-processed"); }   // timer processing lags: elapsed events wait for COTmrProcess
        else if (k == "lag") { int n = (int)(o.arg(0) % 6) + 1; for (int i = 0; i < n; i++) w.isr(sl); w.process(sl); cov.hit("F13-deferred-processing"); }   // n ticks served, processed late in one go
        else if (k == "frame") { Frame f((uint32_t)o.arg(0), (uint8_t)o.arg(1, 8), o.b); if (f.id == 0x600) f.id = 0x600u + n->NodeId; /* SDO requests follow the node id (LSS may have changed it) */ if (f.id == 0x640 && para && CO_SSDO_N > 1) f.id = (w.raw(sl, 0x1201, 1) + n->NodeId) & 0x7FF; /* second server: the identifier 1201h:1 announces */ w.rx(sl, f); w.canproc(sl); cov.frames_in++; }
        else if (k == "emcy") { uint8_t e = (uint8_t)((uint64_t)o.arg(1) % emcyTbl.size()); if (o.arg(0)) COEmcySet(&n->Emcy, e, nullptr); else COEmcyClr(&n->Emcy, e); }
        else if (k == "trig") { if (o.arg(0) == 0) COTPdoTrigPdo(n->TPdo, (uint16_t)(o.arg(1) & 1)); else rc = (int)CODictWrByte(&n->Dict, CO_DEV(0x2100, 4), (uint8_t)o.arg(1)); }
        else if (k == "csdoreq") { CO_CSDO *cs = COCSdoFind(n, 0); if (!cs) return -99; uint32_t size = (uint32_t)o.arg(1) % 20 + 1; uint8_t *nb = (uint8_t *)malloc(size); memset(nb, 0x3C, size);
            rc = (int)(o.arg(0) ? COCSdoRequestUpload(cs, CO_DEV(0x2000, 1), nb, size, doneCb, (uint32_t)o.arg(2) % 50 + 5) : COCSdoRequestDownload(cs, CO_DEV(0x2000, 1), nb, size, doneCb, (uint32_t)o.arg(2) % 50 + 5));
            if (rc == 0) { free(cbuf[sl][0]); cbuf[sl][0] = nb; cbufSize[sl] = size; } else free(nb); }   // a refused request leaves the running transfer's buffer alone
        else if (k == "apptmr") { if (sl == 0 && !split) { if (o.arg(0)) { int16_t id = COTmrCreate(&n->Tmr, (uint32_t)o.arg(1) % 30 + 1, (uint32_t)o.arg(2) % 30 + 1, appCb, nullptr); if (id >= 0) appTimers.push_back(id); } else if (!appTimers.empty()) { (void)COTmrDelete(&n->Tmr, (int16_t)appTimers.back()); appTimers.pop_back(); } } }
        else if (k == "rcvret") w.s[sl].pdoReceiveRet = (int)o.arg(0);
        else if (k == "script") { scripts = (int)o.arg(0) & 15; retry[sl] = ((int)o.arg(0) & 16) ? 2 : 0; cov.hit("application-code-inside-callbacks"); }
        else if (k == "geterr") (void)CONodeGetErr(n);
        else if (k == "read") { uint32_t val = 0; rc = (int)CODictRdLong(&n->Dict, CO_DEV(0x2100, 3), &val); rc = rc * 31 + (int)(val & 0xFFFF); rc = rc * 31 + (int)CONmtGetMode(&n->Nmt); rc = rc * 31 + COEmcyCnt(&n->Emcy); rc = rc * 31 + CONmtGetHbEvents(&n->Nmt, 20) + 7 * (int)CONmtLastHbState(&n->Nmt, 20); }
        return rc;
    }
    void op(const Op &o) {
        if (!split) {
            if (o.k == "reset") {
                w.s[0].sendFail = 0;      // fault switches are harness state: none is pending across the reset
                int keepScripts = scripts; scripts = 0;   // application code stays passive while the reset itself runs (what it does with pre-reset state is its own business); it is active again for the probes
                struct Restore { int &s; int v; ~Restore() { s = v; } } restore{scripts, keepScripts};
                size_t mk = w.mark(); w.rx(0, Frame(0, 2, {(uint8_t)(o.arg(0) ? 129 : 130), 0})); w.canproc(0);
                if (CONmtGetMode(&w.N(0)->Nmt) != CO_PREOP) { cov.hit("reset-ignored-in-this-state"); return; }    // e.g. node was stopped by CONodeStop / INIT
                split = true; size_t mk2 = w.mark(); makeB(); nontrivial = true; cov.hit(o.arg(0) ? "reset-node" : "reset-communication");
                // reach: abstract state of A at the moment of the reset is recorded by run()
                Obs a = observe(mk, 0), b = observe(mk2, 1); a.ev.erase(std::remove_if(a.ev.begin(), a.ev.end(), [](const std::string &x) { return x.rfind("csdo-done", 0) == 0; }), a.ev.end());   // a transfer cut off by the reset reports its end: part of the reset, not of the behaviour afterwards
                compare(a, b, "the reset itself");
                return;
            }
            if (o.k == "cbreset") {
                // arm the callback script, then let time pass tick by tick: the reset (and the birth of B) happens inside one of these ticks
                cbType = (int)o.arg(0); int n = (int)(o.arg(1) % 80) + 1, lag = (int)(o.arg(2) % 4); armCb = true; (void)w.mark(); int i = 0;
                for (; i < n && !split; i++) { if (lag && i % (lag + 1) != lag) w.isr(0); else w.tick(0, 1); }
                if (!split && lag) w.process(0);
                armCb = false; safety(); if (!v.ok) return;
                if (!split) { cov.hit("callback-reset-armed-but-no-heartbeat-loss"); return; }
                nontrivial = true; cov.hit(cbType ? "reset-node-inside-hbcons-callback" : "reset-communication-inside-hbcons-callback");
                Obs a = observe(cbMk, 0), b = observe(cbMk2, 1); a.ev.erase(std::remove_if(a.ev.begin(), a.ev.end(), [](const std::string &x) { return x.rfind("csdo-done", 0) == 0; }), a.ev.end());
                compare(a, b, "the reset itself (called from inside CONmtHbConsEvent)"); if (!v.ok) return;
                Op rest("tick", {(int64_t)(n - i)}); if (n - i > 0) { size_t mkA = w.mark(); (void)apply(rest, 0); Obs a2 = observe(mkA, 0); size_t mkB = w.mark(); (void)apply(rest, 1); Obs b2 = observe(mkB, 1); safety(); if (!v.ok) return; compare(a2, b2, "ticks after the reset from inside the callback"); }
                return;
            }
            size_t mk = w.mark(); (void)apply(o, 0); (void)mk; safety(); return;
        }
        if (o.k == "reset" || o.k == "apptmr" || o.k == "cbreset") return;
        size_t mkA = w.mark(); int ra = apply(o, 0); Obs a = observe(mkA, 0);
        size_t mkB = w.mark(); int rb = apply(o, 1); Obs b = observe(mkB, 1);
        safety(); if (!v.ok) return;
        if (ra != rb) { fail("reset/api-result", "operation " + o.k + " returns " + std::to_string(ra) + " after the reset, " + std::to_string(rb) + " on the fresh node"); return; }
        compare(a, b, o.k.c_str());
    }
    void compare(const Obs &a, const Obs &b, const char *what) {
        if (a.ev != b.ev) {
            size_t i = 0; while (i < a.ev.size() && i < b.ev.size() && a.ev[i] == b.ev[i]) i++;
            std::string ea = i < a.ev.size() ? a.ev[i] : "(nothing)", eb = i < b.ev.size() ? b.ev[i] : "(nothing)";
            // classify by the kind of the first difference
            std::string cls = (i < a.ev.size() ? a.ev[i] : b.ev[i]).substr(0, (i < a.ev.size() ? a.ev[i] : b.ev[i]).find(' '));
            std::string idc; { const std::string &ref = i < a.ev.size() ? a.ev[i] : b.ev[i]; size_t p = ref.find('#'); if (cls == "tx" && p != std::string::npos && p >= 3) { std::string id = ref.substr(p - 3, 3); uint32_t idn = (uint32_t)strtoul(id.c_str(), 0, 16); idc = idn == 0x080 || idn == 0x090 ? "-sync" : (idn & 0x780) == 0x700 ? "-heartbeat" : (idn & 0x780) == 0x580 ? "-sdo-response" : (idn & 0x780) == 0x600 ? "-sdo-client" : (idn & 0x780) == 0x080 ? "-emcy" : (idn >= 0x180 && idn < 0x580) ? "-pdo" : idn == 0 ? "-id0" : "-other"; } }
            fail("reset/trace-" + cls + idc, std::string("during ") + what + ": after the reset " + ea + " | fresh node " + eb + " (event " + std::to_string(i) + " of " + std::to_string(a.ev.size()) + "/" + std::to_string(b.ev.size()) + ")"); return;
        }
        if (a.lastMode != b.lastMode && !(std::string(what) == "the reset itself")) { fail("reset/mode-change-callback", std::string("final mode-change callback differs during ") + what); return; }
        if (CONmtGetMode(&w.N(0)->Nmt) != CONmtGetMode(&w.N(1)->Nmt)) { fail("reset/mode", std::string("NMT modes differ after ") + what); return; }
        if (w.N(0)->NodeId != w.N(1)->NodeId) { fail("reset/node-id", std::string("node ids differ after ") + what); return; }
        std::vector<uint8_t> ia = w.image(0), ib = w.image(1);
        if (ia != ib) { size_t off = 0; for (auto &sp : w.s[0].specs) { size_t len = w.bytes(0, sp.idx, sp.sub).size(); if (memcmp(&ia[off], &ib[off], len) != 0) { fail("reset/object-" + hex(sp.idx), "object " + hex(sp.idx) + ":" + std::to_string(sp.sub) + " differs after " + what + ": " + hex(w.raw(0, sp.idx, sp.sub)) + " after the reset, " + hex(w.raw(1, sp.idx, sp.sub)) + " on the fresh node"); return; } off += len; } }
        int ua = w.tmrUsedActions(0) - (int)appTimers.size(), ub = w.tmrUsedActions(1);
        if (ua != ub) { fail("reset/timer-occupancy", "timer slots in use (without application timers): " + std::to_string(ua) + " after the reset, " + std::to_string(ub) + " on the fresh node, after " + std::string(what)); return; }
        cov.hit("probes-compared");
    }
    Verdict run() {
        build();
        for (opi = 0; opi < (int)plan.ops.size() && v.ok; opi++) {
            const Op &o = plan.ops[(size_t)opi]; w.opIndex = (uint32_t)opi; cov.ops++;
            if (!split && (o.k == "reset" || o.k == "cbreset")) { // abstract state of A at the reset: per service idle/busy, timers armed, producer on/off
                CO_NODE *n = w.N(0); Hash h; h.u64((uint64_t)n->Nmt.Mode); h.u64(n->Sdo[0].Obj != 0); h.u64((uint64_t)n->Sdo[0].Blk.State); h.u64(n->CSdo[0].State == CO_CSDO_STATE_BUSY); h.u64(n->Nmt.Tmr >= 0); h.u64(n->Sync.Tmr >= 0); h.u64(n->Lss.Mode); h.u64(n->TPdo[0].Flags); h.u64((uint64_t)COEmcyCnt(&n->Emcy)); int chain = 0; for (CO_HBCONS *c = n->Nmt.HbCons; c && chain < 8; c = c->Next) chain += c->Tmr >= 0 ? 2 : 1; h.u64((uint64_t)chain); h.u64((uint64_t)w.tmrUsedActions(0)); cov.states.insert(h.h); trace.u64(h.h); }
            op(o);
            Hash h; h.str(o.k); h.u64(split); if (o.k == "frame") h.u64((uint64_t)o.arg(0) & 0x780); cov.pairs.insert(h.h); trace.u64(h.h);
        }
        cov.sim_seconds += (double)w.s[0].now / freq; finish(); return v;
    }
};

ResetRun *ResetRun::self = nullptr;
static Op sdoWr(uint16_t idx, uint8_t sub, uint32_t val, int width) { return Op("frame", {0x600, 8}, {(uint8_t)(0x23 | (4 - width) << 2), (uint8_t)idx, (uint8_t)(idx >> 8), sub, (uint8_t)val, (uint8_t)(val >> 8), (uint8_t)(val >> 16), (uint8_t)(val >> 24)}); }
static Op sdoRd(uint16_t idx, uint8_t sub) { return Op("frame", {0x600, 8}, {0x40, (uint8_t)idx, (uint8_t)(idx >> 8), sub, 0, 0, 0, 0}); }
static void gen_traffic(Rng &r, std::vector<Op> &ops, bool probe, bool para = false) {
    int c = (int)r.below(40);
    if (c < 6) ops.push_back(Op("tick", {r.chance(1, 8) ? r.pick<int64_t>({50, 100, 255}) : r.range(1, 12)}));
    else if (c < 8) ops.push_back(Op("nmt_placeholder"));
    else if (c == 8) ops.push_back(sdoWr(0x1017, 0, r.pick<uint32_t>({0, 3, 5, 10, 50}), 2));
    else if (c == 9) ops.push_back(sdoWr(0x1016, (uint8_t)r.range(1, 2), (uint32_t)r.pick<uint32_t>({20, 21, 22}) << 16 | r.pick<uint32_t>({0, 5, 10, 30}), 4));
    else if (c == 10) ops.push_back(sdoWr(0x1005, 0, (r.chance(1, 2) ? 0x40000000u : 0) | r.pick<uint32_t>({0x80, 0x80, 0x90}), 4));
    else if (c == 11) ops.push_back(sdoWr(0x1006, 0, r.pick<uint32_t>({0, 1000, 2000, 5000, 10000}), 4));
    else if (c == 12) ops.push_back(sdoWr(0x1800, 1, (r.chance(1, 2) ? 0x80000000u : 0) | 0x40000181u, 4));
    else if (c == 13) ops.push_back(sdoWr(0x1800, 5, r.pick<uint32_t>({0, 3, 7, 20}), 2));
    else if (c == 14) ops.push_back(sdoWr(0x1800, 3, r.pick<uint32_t>({0, 10, 50}), 2));
    else if (c == 15) ops.push_back(sdoWr(0x1014, 0, (r.chance(1, 2) ? 0x80000000u : 0) | 0x81u, 4));
    else if (c == 16) ops.push_back(sdoWr(0x1401, 1, (r.chance(1, 2) ? 0x80000000u : 0) | 0x301u, 4));
    else if (c == 17) ops.push_back(sdoWr(0x2100, (uint8_t)r.range(1, 6), (uint32_t)r.next(), r.pick<int>({1, 2, 4})));
    else if (c == 18) ops.push_back(sdoRd(r.pick<uint16_t>({0x1000, 0x1001, 0x1017, 0x1005, 0x1016, 0x2100, 0x2201}), (uint8_t)r.below(3)));
    else if (c == 19) { ops.push_back(sdoRd(0x2200, 0)); int n = (int)r.below(4); for (int i = 0; i < n; i++) ops.push_back(Op("frame", {0x600, 8}, {(uint8_t)(0x60 | (i & 1) << 4), 0, 0, 0, 0, 0, 0, 0})); }   // segmented upload, possibly abandoned
    else if (c == 20) { ops.push_back(Op("frame", {0x600, 8}, {0x21, 0x00, 0x22, 0, 40, 0, 0, 0})); int n = (int)r.below(3); for (int i = 0; i < n; i++) ops.push_back(Op("frame", {0x600, 8}, {(uint8_t)((i & 1) << 4), 1, 2, 3, 4, 5, 6, 7})); }
    else if (c == 21) { ops.push_back(Op("frame", {0x600, 8}, {0xC2, 0x00, 0x22, 0, 40, 0, 0, 0})); int n = (int)r.below(4); for (int i = 0; i < n; i++) ops.push_back(Op("frame", {0x600, 8}, {(uint8_t)(i + 1), 9, 8, 7, 6, 5, 4, 3})); }
    else if (c == 22) { ops.push_back(Op("frame", {0x600, 8}, {0xA0, 0x00, 0x22, 0, (uint8_t)r.pick<int>({1, 3, 127}), 0, 0, 0})); if (r.chance(2, 3)) ops.push_back(Op("frame", {0x600, 8}, {0xA3, 0, 0, 0, 0, 0, 0, 0})); }
    else if (c < 26) ops.push_back(Op("frame", {0x700 + r.pick<int64_t>({20, 21, 22}), 1}, {r.pick<uint8_t>({5, 127, 4, 0})}));
    else if (c < 29) ops.push_back(Op("frame", {r.pick<int64_t>({0x80, 0x80, 0x90}), 0}, {}));
    else if (c < 32) { std::vector<uint8_t> b; for (int j = 0; j < 8; j++) b.push_back(r.byte()); ops.push_back(Op("frame", {r.pick<int64_t>({0x201, 0x301, 0x301, 0x401}), 8}, b)); }
    else if (c == 32) ops.push_back(Op("frame", {0x7E5, 8}, {r.pick<uint8_t>({4, 4, 17, 19, 23, 94, 64}), (uint8_t)r.pick<int>({1, 1, 0, 3, 100}), (uint8_t)r.below(9), 0, 0, 0, 0, 0}));
    else if (c == 33) ops.push_back(Op("frame", {r.pick<int64_t>({0x123, 0x7FF, 0x589}), 8}, {1, 2, 3}));
    else if (c == 34) ops.push_back(Op("emcy", {(int64_t)r.chance(2, 3), r.chance(1, 2) ? (int64_t)r.below(3) : r.pick<int64_t>({7, 8, 9, 15, 16, 17, 23, 24, 25, 26, 5})}));
    else if (c == 35) ops.push_back(Op("trig", {(int64_t)r.below(2), (int64_t)r.below(256)}));
    else if (c == 36) ops.push_back(Op("csdoreq", {(int64_t)r.below(2), (int64_t)r.below(20), (int64_t)r.below(50)}));
    else if (c == 37) { if (!probe) ops.push_back(Op("apptmr", {(int64_t)r.chance(2, 3), (int64_t)r.below(30), (int64_t)r.below(30)})); else ops.push_back(Op("read")); }
    else if (c == 38) ops.push_back(Op("frame", {0x589, 8}, {r.pick<uint8_t>({0x60, 0x43, 0x80, 0x41, 0x00}), 0x00, 0x20, 1, 1, 2, 3, 4}));     // answer of the remote SDO server
    else ops.push_back(r.chance(1, 2) ? Op("read") : r.chance(1, 3) ? Op("script", {(int64_t)r.below(32)}) : r.chance(1, 2) ? Op("sendfail", {r.range(1, 3)}) : Op("lag", {(int64_t)r.below(6)}));
    if (para && r.chance(1, 6)) { int c2 = (int)r.below(6);
        if (c2 == 0) ops.push_back(Op("frame", {0x600, 8}, {0x23, 0x10, 0x10, (uint8_t)r.range(1, 2), 0x73, 0x61, 0x76, 0x65}));                       // 'save'
        else if (c2 == 1) { uint32_t nid = r.pick<uint32_t>({0x640, 0x650, 0x660}); ops.push_back(sdoWr(0x1201, 1, 0x80000000u | 0x641, 4)); ops.push_back(sdoWr(0x1201, 1, nid + 1, 4)); }   // second server moved to another request identifier
        else if (c2 == 2) { uint32_t nid = r.pick<uint32_t>({0x5C0, 0x5D0}); ops.push_back(sdoWr(0x1201, 2, 0x80000000u | 0x5C1, 4)); ops.push_back(sdoWr(0x1201, 2, nid + 1, 4)); }
        else ops.push_back(Op("frame", {0x640, 8}, {0x40, r.pick<uint8_t>({0x00, 0x17, 0x01}), r.pick<uint8_t>({0x10, 0x12, 0x21}), (uint8_t)r.below(3), 0, 0, 0, 0})); }       // request to the second server on the identifier it announces
    if (!ops.empty() && ops.back().k == "nmt_placeholder") { ops.pop_back(); ops.push_back(Op("frame", {0, 2}, {r.pick<uint8_t>({1, 1, 1, 2, 128}), 0})); }
}
Plan gen_reset(Rng &r, bool thorough) {
    Plan p; bool para = r.chance(1, 4); p.cfg["para"] = para; p.cfg["syncprod"] = r.below(2); p.cfg["synccycle"] = r.pick<int64_t>({2000, 5000, 10000}); p.cfg["cons0"] = r.pick<int64_t>({0, 10, 20}); p.cfg["cons1"] = r.pick<int64_t>({0, 15}); p.cfg["hb"] = r.pick<int64_t>({0, 5, 10}); p.cfg["inh0"] = r.pick<int64_t>({0, 30, 100}); p.cfg["ev0"] = r.pick<int64_t>({0, 7, 20});
    if (r.chance(4, 5)) p.ops.push_back(Op("frame", {0, 2}, {1, 0}));
    int h = (int)r.range(0, thorough ? 60 : 30); for (int i = 0; i < h; i++) gen_traffic(r, p.ops, false, para);
    if (r.chance(1, 3)) p.ops.push_back(Op("isr", {r.chance(1, 2) ? r.range(0, 10) : r.range(50, 399)}));   // the reset request meets timers that have elapsed but were not processed yet
    if (r.chance(1, 5)) {   // the application resets the node from inside CONmtHbConsEvent (heartbeat of a monitored node lost)
        if (r.chance(3, 4)) p.ops.push_back(sdoWr(0x1016, (uint8_t)r.range(1, 2), (uint32_t)r.pick<uint32_t>({20, 21}) << 16 | r.pick<uint32_t>({5, 10, 30}), 4));
        int k = (int)r.range(1, 3); for (int i = 0; i < k; i++) { p.ops.push_back(Op("frame", {0x700 + r.pick<int64_t>({20, 21}), 1}, {r.pick<uint8_t>({5, 127})})); if (r.chance(1, 2)) p.ops.push_back(Op("tick", {r.range(1, 9)})); }
        p.ops.push_back(Op("cbreset", {(int64_t)r.chance(1, 4), r.range(10, 79), r.chance(1, 3) ? r.range(1, 3) : 0}));
    }
    p.ops.push_back(Op("reset", {(int64_t)r.chance(1, 4)}));
    int q = (int)r.range(3, thorough ? 50 : 25); for (int i = 0; i < q; i++) { if (i == 1 && r.chance(2, 3)) p.ops.push_back(Op("frame", {0, 2}, {1, 0})); gen_traffic(r, p.ops, true, para); }
    p.ops.push_back(Op("tick", {120}));
    return p;
}
Reg r20({"reset_eq", "C20", gen_reset, [](const Plan &p, Cov &c, bool vb) { ResetRun x(p, c, vb); return x.run(); }, nullptr, nullptr});

} // namespace
} // namespace sim
