// C01 (chaos): a full node under hostile bus traffic, hostile (but pointer-valid) application calls, driver faults,
// preemption and deferred processing, over dictionaries drawn per run. Oracle: the safety monitor only.
#include "sdo.hpp"
#include "node_env.hpp"

namespace sim {
namespace {

enum Feat { F_1003 = 1, F_1005 = 2, F_1006 = 4, F_PARA = 8, F_1014 = 16, F_1016 = 32, F_1017 = 64, F_1018 = 128, F_1201 = 256, F_1280 = 512, F_SYNCPROD = 1024, F_EMCYTBL = 2048, F_SDOID_RW = 4096 };

struct ChaosRun : NodeEnv {
    std::vector<ObjSpec> appObjs; std::vector<ParaSpec> paras; std::vector<std::pair<uint8_t, uint16_t>> emcy; size_t nvmSize = 0; uint32_t feat = 0;
    std::vector<int> appTimers; Session sess; bool sessActive = false; SdoDict sd; uint8_t *cbuf[CO_CSDO_N]; bool stopped = false;
    ChaosRun(const Plan &p, Cov &c, bool vb) : NodeEnv(p, c, vb) { memset(cbuf, 0, sizeof cbuf); }
    ~ChaosRun() { for (auto &b : cbuf) free(b); }
    static void appCb(void *) { if (W) W->preemptPoint(2000); }
    std::vector<Op> cbQueue[7]; int cbDepth = 0; bool hooks = false;
    void fire(int which) { if (cbDepth >= 2 || cbQueue[which].empty() || stopped) return;   /* up to two levels deep: a call made from a callback may provoke another callback that calls again */ cbDepth++; Op a = cbQueue[which].back(); cbQueue[which].pop_back(); int keep = w.cur; apiCall(a); w.cur = keep; cbDepth--; cov.hit("api-call-from-inside-a-callback"); }
    void installHooks() { if (hooks) return; hooks = true;
        w.onHbConsEvent = [this](uint8_t) { fire(0); }; w.onHbConsChange = [this](uint8_t, int) { fire(1); }; w.onPdoTransmit = [this](const Frame &) { fire(2); }; w.onPdoReceive = [this](const Frame &) { fire(3); };
        w.onSyncUpdate = [this](int) { fire(4); }; w.onModeChange = [this](int) { fire(5); }; w.onCanReceive = [this](const Frame &) { fire(6); }; }
    static void doneCb(CO_CSDO *, uint16_t, uint8_t, uint32_t) {}

    void buildDict() {
        feat = (uint32_t)plan.c("feat", 0xFFFF); Rng r((uint64_t)plan.c("dictseed", 1)); nodeId = (uint8_t)plan.c("nodeid", 1); if (nodeId < 1 || nodeId > 127) nodeId = 1;
        std::vector<ObjSpec> &v = specs;
        add_u32(v, 0x1000, 0, CO_OBJ_D___R_, 0x191); add_u8(v, 0x1001, 0, CO_OBJ_____R_, 0);
        if (feat & F_1003) { int depth = (int)plan.c("histdepth", 2) % 9; add_typed(v, T_EMCYHIST, 0x1003, 0, CO_OBJ_____RW, 0); for (int i = 1; i <= depth; i++) add_typed(v, T_EMCYHIST, 0x1003, (uint8_t)i, (uint8_t)(CO_OBJ_____R_ | (r.below(2) ? CO_OBJ_D_____ : 0)), 0); }
        if (feat & F_1005) add_typed(v, T_SYNCID, 0x1005, 0, CO_OBJ_____RW, ((feat & F_SYNCPROD) && (feat & F_1006) ? 0x40000000u : 0) | 0x80u);
        if (feat & F_1006) add_typed(v, T_SYNCCYCLE, 0x1006, 0, CO_OBJ_____RW, (uint32_t)plan.c("synccycle", 5000));
        if (feat & F_PARA) { int ns = (int)plan.c("nsub", 2) % 5 + 1; size_t ng = ns == 1 ? 1 : (size_t)ns - 1; uint32_t off = 0; for (size_t i = 0; i < ng; i++) { ParaSpec ps; ps.offset = off; ps.size = (uint32_t)r.range(1, 64); ps.type = r.below(2) ? CO_RESET_COM : CO_RESET_NODE; ps.value = r.below(4) ? CO_PARA___E : 0; off += ps.size; paras.push_back(ps); } nvmSize = off + (r.below(3) ? 8 : 0) - (r.below(4) == 0 && off > 2 ? 2 : 0);
            add_typed(v, T_PARASTORE, 0x1010, 0, CO_OBJ_D___R_, (uint32_t)ns); add_typed(v, T_PARARESTORE, 0x1011, 0, CO_OBJ_D___R_, (uint32_t)ns); int gapSub = ns >= 3 && r.chance(1, 3) ? (int)r.range(2, ns) : 0; /* a sub-index that is not implemented */ for (int s2 = 1; s2 <= ns; s2++) { if (s2 == gapSub) continue; int gi = ns == 1 ? 0 : s2 == 1 ? 0 : s2 - 2; add_typed(v, T_PARASTORE, 0x1010, (uint8_t)s2, CO_OBJ_____RW, 0, gi); add_typed(v, T_PARARESTORE, 0x1011, (uint8_t)s2, CO_OBJ_____RW, 0, gi); } }
        if (feat & F_1014) add_typed(v, T_EMCYID, 0x1014, 0, CO_OBJ__N__RW, 0x80);
        if (feat & F_1016) { int n = (int)plan.c("ncons", 2) % 4 + 1; add_typed(v, T_HBCONS, 0x1016, 0, CO_OBJ_D___R_, (uint32_t)n); for (int i = 1; i <= n; i++) add_typed(v, T_HBCONS, 0x1016, (uint8_t)i, CO_OBJ_____RW, r.below(3) ? (uint32_t)r.range(1, 50) : 0, 10 + i); }
        if (feat & F_1017) add_typed(v, T_HBPROD, 0x1017, 0, CO_OBJ_____RW, (uint32_t)plan.c("hb", 10));
        if (feat & F_1018) { add_u8(v, 0x1018, 0, CO_OBJ_D___R_, 4); for (int i = 1; i <= 4; i++) add_u32(v, 0x1018, (uint8_t)i, CO_OBJ_D___R_, 0x11111111u * (uint32_t)i); }
        uint8_t sf = (feat & F_SDOID_RW) ? CO_OBJ_DN__RW : CO_OBJ_DN__R_;
        add_u8(v, 0x1200, 0, CO_OBJ_D___R_, 2); add_typed(v, T_SDOID, 0x1200, 1, sf, 0x600); add_typed(v, T_SDOID, 0x1200, 2, sf, 0x580);
        if ((feat & F_1201) && CO_SSDO_N > 1) { add_u8(v, 0x1201, 0, CO_OBJ_D___R_, 2); add_typed(v, T_SDOID, 0x1201, 1, sf, 0x640); add_typed(v, T_SDOID, 0x1201, 2, sf, 0x5C0); }
        if (feat & F_1280) for (int n = 0; n < (int)plan.c("ncsdo", 1) % CO_CSDO_N + 1; n++) { uint16_t i = (uint16_t)(0x1280 + n); add_u8(v, i, 0, CO_OBJ_D___R_, 3); add_u32(v, i, 1, CO_OBJ_D___R_, 0x600u + 0x10u * (uint32_t)n); add_u32(v, i, 2, CO_OBJ_D___R_, 0x580u + 0x10u * (uint32_t)n); add_u8(v, i, 3, CO_OBJ_D___R_, 9); }
        // application objects of every basic kind
        sd.build(plan, 0); for (auto &o : sd.specs) if (o.idx >= 0x2000) v.push_back(o);
        add_u8(v, 0x2400, 0, CO_OBJ_D___R_, 8); static const uint8_t W[8] = {1, 2, 4, 1, 2, 4, 4, 1}; for (int i = 1; i <= 8; i++) add_typed(v, W[i - 1] == 1 ? T_U8 : W[i - 1] == 2 ? T_U16 : T_U32, 0x2400, (uint8_t)i, (uint8_t)(CO_OBJ____P__ | (r.below(2) ? CO_OBJ___A___ : 0) | (r.below(4) ? CO_OBJ_____RW : r.below(2) ? CO_OBJ_____R_ : CO_OBJ______W) | (r.below(2) ? CO_OBJ_D_____ : 0) | (r.below(5) == 0 ? CO_OBJ__N____ : 0)), (uint32_t)r.next());
        // PDOs: channel indices stay below the build's table sizes
        auto mapOf = [&](bool rpdo) { std::vector<uint32_t> m; int n = (int)r.range(0, 8); uint32_t total = 0; for (int i = 0; i < n; i++) { int k = (int)r.range(1, 8); uint32_t by = r.below(6) == 0 ? (W[k - 1] == 4 ? 3 : W[k - 1]) : W[k - 1]; uint32_t link; if (rpdo && r.below(4) == 0) { static const uint8_t dw[6] = {1, 2, 4, 1, 2, 4}; int di = (int)r.below(6); by = dw[di]; link = CO_LINK(2 + di, 0, by * 8); } else link = CO_LINK(0x2400, k, by * 8); if (total + by > 8) break; total += by; m.push_back(link); } return m; };
        int nr = (int)plan.c("nrpdo", 2) % (CO_RPDO_N + 1), nt = (int)plan.c("ntpdo", 2) % (CO_TPDO_N + 1);
        for (int n = 0; n < CO_RPDO_N; n++) if (n < nr || r.below(5) == 0) add_rpdo(v, n, (0x200u + 0x100u * (uint32_t)n + nodeId) | (r.below(5) == 0 ? 0x80000000u : 0), r.below(2) ? (uint8_t)r.pick<int>({0, 1, 2, 240}) : (uint8_t)r.pick<int>({254, 255, 241}), mapOf(true), r.below(4) != 0);
        for (int n = 0; n < CO_TPDO_N; n++) if (n < nt || r.below(5) == 0) add_tpdo(v, n, (0x40000180u + 0x100u * (uint32_t)n + nodeId) | (r.below(5) == 0 ? 0x80000000u : 0), r.below(2) ? (uint8_t)r.pick<int>({0, 1, 2, 240}) : (uint8_t)r.pick<int>({254, 255, 252}), (uint16_t)(r.below(2) ? r.range(0, 100) : 0), (uint16_t)(r.below(2) ? r.range(0, 30) : 0), mapOf(false), r.below(4) != 0);
        if (feat & F_EMCYTBL) for (int i = 0; i < CO_EMCY_N; i++) emcy.push_back({(uint8_t)r.below(8), (uint16_t)(0x1000 + r.below(0xE000))});
    }
    void boot(bool first) {
        NodeCfg cfg; cfg.nodeId = nodeId; cfg.freq = (uint32_t)plan.c("freq", 1000); if (cfg.freq == 0) cfg.freq = 1000; freq = cfg.freq; cfg.tmrNum = (uint16_t)plan.c("tmrnum", 16); if (cfg.tmrNum < 1) cfg.tmrNum = 1; cfg.rxDepth = (size_t)plan.c("rxdepth", 8); if (cfg.rxDepth < 1) cfg.rxDepth = 1; cfg.strict = plan.c("strict", 1) != 0; cfg.dictExtra = (uint32_t)plan.c("dictextra", 1) % 3 + 1;
        if (first) { w.build(0, cfg, specs, paras, emcy, nvmSize); for (size_t i = 0; i < paras.size(); i++) for (uint32_t b = 0; b < paras[i].size; b++) S().paraRam[i][b] = (uint8_t)(i * 16 + b); }
        w.init(0); stopped = false;
    }
    // a frame the node listens to, with a command byte of that protocol's alphabet
    std::vector<uint32_t> listenIds() { std::vector<uint32_t> v = {0x600u + nodeId, 0x640u + nodeId, 0, 0x7E5, 0x80, 0x580u + 9, 0x590u + 9}; for (int i = 1; i <= 5; i++) v.push_back(0x700u + 10 + (uint32_t)i); for (int n = 0; n < 4; n++) v.push_back(0x200u + 0x100u * (uint32_t)n + nodeId); return v; }

    void apiCall(const Op &o) {
        CO_NODE *n = N(); w.cur = 0; int what = (int)o.arg(0) % 30; uint32_t a = (uint32_t)o.arg(1), b = (uint32_t)o.arg(2);
        // a key: existing object, existing index wrong sub, or anything
        uint32_t key; { const ObjSpec &sp = S().specs[a % S().specs.size()]; key = (b & 3) == 0 ? (uint32_t)o.arg(3) : (b & 3) == 1 ? CO_DEV(sp.idx, sp.sub + 1 + (b >> 4 & 7)) : CO_DEV(sp.idx, sp.sub); }
        // the application does not overwrite read-only entries of the communication profile (counts, identity, constant COB-IDs):
        // that would make the dictionary ill-formed, which is outside the property
        if ((what == 3 || what == 4 || what == 5 || what == 7)) { const ObjSpec *t = w.ospec(0, (uint16_t)(key >> 16), (uint8_t)(key >> 8)); if (t && t->idx < 0x2000 && !(t->flags & CO_OBJ______W)) what = 29; }
        switch (what) {
        case 0: { uint8_t x; (void)CODictRdByte(&n->Dict, key, &x); break; } case 1: { uint16_t x; (void)CODictRdWord(&n->Dict, key, &x); break; } case 2: { uint32_t x; (void)CODictRdLong(&n->Dict, key, &x); break; }
        case 3: (void)CODictWrByte(&n->Dict, key, (uint8_t)o.arg(3)); break; case 4: (void)CODictWrWord(&n->Dict, key, (uint16_t)o.arg(3)); break; case 5: (void)CODictWrLong(&n->Dict, key, (uint32_t)o.arg(3)); break;
        case 6: case 7: { uint32_t len = (uint32_t)o.arg(3) % 5000; uint8_t *buf = (uint8_t *)malloc(len ? len : 1); memset(buf, 0x5A, len ? len : 1); if (what == 6) (void)CODictRdBuffer(&n->Dict, key, buf, len); else (void)CODictWrBuffer(&n->Dict, key, buf, len); free(buf); break; }
        case 8: { CO_EMCY_USR u; u.Hist = (uint16_t)b; memset(u.Emcy, (int)b, 5); if (!emcy.empty() || true) COEmcySet(&n->Emcy, (uint8_t)a, (b & 1) ? &u : nullptr); break; }
        case 9: COEmcyClr(&n->Emcy, (uint8_t)a); break; case 10: COEmcyReset(&n->Emcy, (uint8_t)(a & 1)); break; case 11: (void)COEmcyGet(&n->Emcy, (uint8_t)a); (void)COEmcyCnt(&n->Emcy); break;
        case 12: { uint16_t num = (b & 3) == 0 ? (uint16_t)(a % CO_TPDO_N) : (b & 3) == 1 ? (uint16_t)CO_TPDO_N : (b & 3) == 2 ? (uint16_t)(CO_TPDO_N + a % 3) : (uint16_t)a; COTPdoTrigPdo(n->TPdo, num); break; }
        case 13: COTPdoTrigObj(n->TPdo, &S().dict[a % S().ndict]); break;
        case 14: CONmtSetMode(&n->Nmt, (CO_MODE)(a % 5)); break;
        case 15: CONmtReset(&n->Nmt, (CO_NMT_RESET)(a % 3)); break;
        case 16: CONodeStart(n); break;
        case 17: (void)CONmtGetHbEvents(&n->Nmt, (uint8_t)a); (void)CONmtLastHbState(&n->Nmt, (uint8_t)b); break;
        case 18: case 19: { CO_CSDO *cs = COCSdoFind(n, (uint8_t)((b & 1) ? a : a % CO_CSDO_N)); if (!cs) break; int ci = (int)(cs - n->CSdo); uint32_t size = (uint32_t)o.arg(3) % 600 + 1; uint8_t *nb = (uint8_t *)malloc(size); memset(nb, 0x77, size); CO_ERR e = what == 18 ? COCSdoRequestUpload(cs, key, nb, size, doneCb, b % 100) : COCSdoRequestDownload(cs, key, nb, size, doneCb, b % 100); if (e == CO_ERR_NONE) { free(cbuf[ci]); cbuf[ci] = nb; } else free(nb); break; }
        case 20: { int16_t id = COTmrCreate(&n->Tmr, a % 40, b % 40, appCb, nullptr); if (id >= 0 && (b % 40) != 0) appTimers.push_back(id); break; }
        case 21: { if (!appTimers.empty()) { size_t i = a % appTimers.size(); (void)COTmrDelete(&n->Tmr, (int16_t)appTimers[i]); appTimers.erase(appTimers.begin() + (long)i); } else (void)COTmrDelete(&n->Tmr, (int16_t)((b & 1) ? -1 : 32767)); break; }
        case 22: (void)CONodeGetErr(n); break;
        case 23: (void)COTmrGetTicks(&n->Tmr, (uint16_t)a, (b & 1) ? CO_TMR_UNIT_1MS : CO_TMR_UNIT_100US); (void)COTmrGetMinTime(&n->Tmr, (b & 1) ? CO_TMR_UNIT_1MS : CO_TMR_UNIT_100US); break;
        case 24: CONmtSetNodeId(&n->Nmt, (uint8_t)a); break;
        case 25: (void)CONmtGetNodeId(&n->Nmt); (void)CONmtGetMode(&n->Nmt); (void)CONmtModeDecode((uint8_t)a); (void)CONmtModeEncode((CO_MODE)(a % 5)); break;
        case 26: COObjTypeUserSDOAbort(&S().dict[a % S().ndict], n, b); break;
        case 27: { CO_OBJ *ob = CODictFind(&n->Dict, key); if (ob) { (void)COObjGetSize(ob, n, b % 9); uint32_t tmp = 0; (void)COObjRdValue(ob, n, &tmp, (uint8_t)COObjGetSize(ob, n, 4) <= 4 ? (uint8_t)COObjGetSize(ob, n, 4) : 4); } break; }
        case 28: CONodeStop(n); stopped = true; appTimers.clear(); break;
        default: { uint8_t x; (void)CODictRdByte(&n->Dict, CO_DEV(0x1001, 0), &x); break; }
        }
    }
    void abstractState(const Op &o) {
        CO_NODE *n = N(); Hash h; h.u64((uint64_t)n->Nmt.Mode);
        for (int s2 = 0; s2 < CO_SSDO_N; s2++) { CO_SDO *sv = &n->Sdo[s2]; h.u64((uint64_t)sv->Blk.State); h.u64(sv->Obj != 0); h.u64(sv->Buf.Num == 0 ? 0 : sv->Buf.Num < 7 ? 1 : sv->Buf.Num < 883 ? 2 : 3); }
        int used = 0, elapsed = 0; for (CO_TMR_TIME *t = n->Tmr.Use; t && used < 40; t = t->Next) used++; for (CO_TMR_TIME *t = n->Tmr.Elapsed; t && elapsed < 40; t = t->Next) elapsed++; h.u64((uint64_t)(used > 3 ? 3 : used)); h.u64((uint64_t)(elapsed > 2 ? 2 : elapsed));
        h.u64((uint64_t)n->CSdo[0].State); h.u64(n->Lss.Mode); cov.states.insert(h.h); Hash h2 = h; h2.str(o.k); if (o.k == "rx") h2.u64((uint64_t)o.arg(0) >> 7); if (o.k == "api") h2.u64((uint64_t)o.arg(0) % 30); cov.pairs.insert(h2.h); trace.u64(h2.h);
        if (n->Tmr.Acts == nullptr) cov.hit("pool-empty"); if (elapsed) cov.hit("elapsed-unprocessed");
    }
    void op(const Op &o) {
        const std::string &k = o.k; w.ppCount = 0; w.preemptAt.clear(); if (!S().cfg.strict) { bool after = false; for (int64_t x : o.a) { if (after) w.preemptAt.push_back((uint32_t)(x & 31)); else if (x == -1) after = true; } }   // preemption points: listed behind a -1 sentinel
        if (stopped && k != "init" && k != "rx" && k != "canproc") return;      // after CONodeStop only CONodeInit is a legal call
        if (k == "rx") { Frame f((uint32_t)o.arg(0), (uint8_t)o.arg(1), o.b); w.rx(0, f); cov.frames_in++; if (o.arg(2, 1)) { w.canproc(0); checkTx(); } }
        else if (k == "canproc") { w.canproc(0); checkTx(); }
        else if (k == "rep") { int n = (int)o.arg(2) % 300; Frame f((uint32_t)o.arg(0), (uint8_t)o.arg(1), o.b); for (int i = 0; i < n && v.ok; i++) { if (o.arg(3) == 1) f.d[0] = (uint8_t)((f.d[0] & 0x80) | ((i % 127) + 1)); else if (o.arg(3) == 2 && i) f.d[0] ^= 0x10; w.rx(0, f); w.canproc(0); checkTx(); cov.frames_in++; } cov.hit("repeated-frame-run"); }
        else if (k == "burst") { int n = (int)o.arg(0) % 20; for (int i = 0; i < n; i++) w.rx(0, Frame((uint32_t)o.arg(1), 8, o.b)); cov.hit("F14-stalled-can-task"); if (S().rxOverruns) cov.hit("F7-rx-fifo-overrun"); }
        else if (k == "tick") { w.tick(0, (uint64_t)o.arg(0)); if (o.arg(0) > 1) cov.hit("F17-tick-burst"); }
        else if (k == "process") { w.process(0); cov.hit("F13-deferred-processing"); }
        else if (k == "api") apiCall(o);
        else if (k == "cbapi") {   // application code inside a callback: the next time callback number arg(4) % 7 runs, it makes this API call (no CONodeStop / CONodeStart from there, one level deep)
            int which = (int)((uint64_t)o.arg(4) % 7); Op a = o; a.k = "api"; if (a.a[0] % 30 == 28 || a.a[0] % 30 == 16) a.a[0] = 22; if (cbQueue[which].size() < 4) cbQueue[which].push_back(a); installHooks(); }
        else if (k == "sendfail") { S().sendFail = (int)o.arg(0) % 6; cov.hit("F5-can-send-failure"); }
        else if (k == "sendfailat") { S().sendFailAfter = (int)o.arg(0) % 130; S().sendFailRet = o.arg(1) ? 0 : -1; cov.hit("F5-can-send-failure-inside-a-burst"); }   // that many frames pass, the next one is refused (error or 'nothing sent')
        else if (k == "readerr") { if (o.arg(1)) S().readErr = (int)o.arg(0) % 4; else S().readEmpty = (int)o.arg(0) % 4; cov.hit("F6-can-read-error"); }
        else if (k == "nvmfault") { if (o.arg(0)) { S().nvmWriteFaultAt = (int64_t)S().nvmWrites + o.arg(1) % 3; S().nvmWriteShort = (uint32_t)o.arg(2) % 8; cov.hit("F8-nvm-short-write"); } else { S().nvmReadFaultAt = (int64_t)S().nvmReads + o.arg(1) % 3; S().nvmReadShort = (uint32_t)o.arg(2) % 8; cov.hit("F9-nvm-short-read"); } }
        else if (k == "init") { for (auto &b : cbuf) { free(b); b = nullptr; } appTimers.clear(); boot(false); cov.hit("F10-power-cycle"); if (o.arg(0)) { w.cur = 0; CONodeStart(N()); } }
        else if (k == "cdlg") { // the node's SDO client against a scripted, possibly hostile server: request, initiate answer, then one frame per control byte
            CO_NODE *n = N(); CO_CSDO *cs = COCSdoFind(n, (uint8_t)(o.arg(0) % CO_CSDO_N)); if (!cs) return; int ci = (int)(cs - n->CSdo); bool up = o.arg(1) != 0;
            uint32_t size = (uint32_t)o.arg(2) % 600 + 1; uint8_t *nb = (uint8_t *)malloc(size); memset(nb, 0x5A, size); uint32_t key = CO_DEV((uint16_t)o.arg(3), (uint8_t)(o.arg(3) >> 16));
            w.cur = 0; CO_ERR e = up ? COCSdoRequestUpload(cs, key, nb, size, doneCb, (uint32_t)o.arg(4) % 100) : COCSdoRequestDownload(cs, key, nb, size, doneCb, (uint32_t)o.arg(4) % 100);
            if (e != CO_ERR_NONE) { free(nb); return; } free(cbuf[ci]); cbuf[ci] = nb; cov.hit(up ? "client-dialogue-upload" : "client-dialogue-download");
            uint32_t rxid = cs->RxId; Frame f; f.id = rxid; f.dlc = 8; f.d[0] = (uint8_t)o.arg(5); f.d[1] = (uint8_t)o.arg(3); f.d[2] = (uint8_t)(o.arg(3) >> 8); f.d[3] = (uint8_t)(o.arg(3) >> 16);
            uint32_t ann = (uint32_t)((int64_t)size + o.arg(6)); f.d[4] = (uint8_t)ann; f.d[5] = (uint8_t)(ann >> 8); f.d[6] = (uint8_t)(ann >> 16); f.d[7] = (uint8_t)(ann >> 24);
            w.rx(0, f); w.canproc(0); checkTx(); cov.frames_in++;
            for (size_t i = 0; i < o.b.size() && v.ok; i++) { Frame g; g.id = rxid; g.dlc = 8; g.d[0] = o.b[i]; for (int j = 1; j < 8; j++) g.d[j] = (uint8_t)(i * 7 + (size_t)j); w.rx(0, g); w.canproc(0); checkTx(); cov.frames_in++; }
        }
        else if (k == "sess") { // mutated conformant dialogue: a reference session whose frames are dropped / repeated / changed
            int act = (int)o.arg(0);
            if (act == 0 || !sessActive) { Session s2; const SdoObj &ob = sd.objs[(size_t)o.arg(1) % sd.objs.size()]; s2.idx = ob.idx; s2.sub = ob.sub; s2.upload = o.arg(2) & 1; s2.mode = (int)(o.arg(2) >> 1) % 3; s2.announce = o.arg(2) & 8; uint32_t len = (uint32_t)o.arg(3) % 4100 + 1; if (!s2.upload) { if (s2.mode == M_EXP && len > 4) s2.mode = M_SEG; s2.payload.assign(len, (uint8_t)o.arg(3)); } s2.reqBlk = (uint8_t)(o.arg(3) % 127 + 1); s2.srv = (int)(o.arg(2) >> 4) % CO_SSDO_N; sess = s2; sessActive = true; }
            if (sess.finished()) { sessActive = false; return; }
            if (act == 6) { // advance the dialogue conformingly by up to 200 steps (reaches full blocks, buffer flushes)
                int n = (int)o.arg(3) % 200 + 1; for (int i = 0; i < n && !sess.finished() && v.ok; i++) { Frame f = sess.next(); f.id = (sess.srv == 0 ? 0x600u : 0x640u) + N()->NodeId; size_t mk = w.mark(); w.rx(0, f); w.canproc(0); checkTx(); cov.frames_in++; std::vector<Frame> resp; for (size_t q = mk; q < w.evs.size(); q++) if (w.evs[q].kind == EV_TX && w.evs[q].f.id == (sess.srv == 0 ? 0x580u : 0x5C0u) + N()->NodeId) resp.push_back(w.evs[q].f); std::vector<uint8_t> truth = w.bytes(0, sess.idx, sess.sub); if (truth.empty()) truth.push_back(0); sess.onResponses(resp, 1, truth); sess.viol.clear(); }
                cov.hit("dialogue-run"); return; }
            Frame f = sess.next(); int copies = act == 2 ? 0 : act == 3 ? 2 : 1; if (act == 4) f.d[o.arg(1) & 7] ^= (uint8_t)(1u << (o.arg(2) & 7)); if (act == 5) f.d[0] = (uint8_t)o.arg(1);
            f.id = (sess.srv == 0 ? 0x600u : 0x640u) + N()->NodeId; size_t mk = w.mark(); for (int i = 0; i < copies; i++) { w.rx(0, f); w.canproc(0); checkTx(); cov.frames_in++; }
            std::vector<Frame> resp; for (size_t i = mk; i < w.evs.size(); i++) if (w.evs[i].kind == EV_TX && w.evs[i].f.id == (sess.srv == 0 ? 0x580u : 0x5C0u) + N()->NodeId) resp.push_back(w.evs[i].f);
            std::vector<uint8_t> truth = w.bytes(0, sess.idx, sess.sub); if (truth.empty()) truth.push_back(0); sess.onResponses(resp, copies, truth); sess.viol.clear(); cov.hit("mutated-dialogue-step");
        }
        if (w.ppFired) cov.hit("F12-isr-preemption", w.ppFired); w.ppFired = 0;
        safety();
        if (S().rxOverruns) { cov.hit("F7-rx-fifo-overrun"); S().rxOverruns = 0; }
    }
    void checkTx() { if (S().txInOp > 127 + CO_TPDO_N + 2) fail("tx-bound", "more than 127+CO_TPDO_N+2 frames sent while processing one received frame (" + std::to_string(S().txInOp) + ")"); for (size_t i = w.evs.size(); i-- > 0 && w.evs.size() - i < 4;) if (w.evs[i].kind == EV_TXFAIL) { cov.hit("send-failed"); break; } }
    Verdict run() {
        buildDict(); boot(true); if (plan.c("start", 1)) { w.cur = 0; CONodeStart(N()); }
        (void)CONodeGetErr(N());
        for (opi = 0; opi < (int)plan.ops.size() && v.ok; opi++) {
            const Op &o = plan.ops[(size_t)opi]; w.opIndex = (uint32_t)opi; cov.ops++;
            op(o); if (!stopped) abstractState(o);
            if (w.evs.size() > 200000) w.evs.erase(w.evs.begin(), w.evs.begin() + 100000);
        }
        nontrivial = true; cov.sim_seconds += 0; finish(); return v;
    }
};

Plan gen_chaos(Rng &r, bool thorough) {
    Plan p; p.cfg["appcmd"] = r.chance(1, 3); p.cfg["feat"] = r.chance(1, 3) ? 0xFFFF : (int64_t)(r.next() & 0xFFFF); p.cfg["dictseed"] = (int64_t)r.below(1000000); p.cfg["nodeid"] = r.pick<int64_t>({1, 1, 2, 64, 127});
    p.cfg["freq"] = r.pick<int64_t>({1000, 1000, 100, 10000, 1000000, 300}); p.cfg["tmrnum"] = r.chance(1, 4) ? r.range(1, 3) : r.range(4, 24); p.cfg["rxdepth"] = r.pick<int64_t>({1, 2, 8, 64}); p.cfg["strict"] = r.chance(1, 2); p.cfg["dictextra"] = r.below(3);
    p.cfg["histdepth"] = r.below(9); p.cfg["nsub"] = r.below(5); p.cfg["ncons"] = r.below(4); p.cfg["hb"] = r.pick<int64_t>({0, 1, 5, 50}); p.cfg["synccycle"] = r.pick<int64_t>({0, 1000, 5000, 100}); p.cfg["nrpdo"] = r.below(5); p.cfg["ntpdo"] = r.below(5); p.cfg["ncsdo"] = r.below(2); p.cfg["start"] = r.chance(9, 10);
    p.cfg["dom0"] = r.range(1, 64); p.cfg["dom1"] = r.pick<int64_t>({7, 8, 889, 890, 100}); p.cfg["dom2"] = r.pick<int64_t>({4000, 1000, 1778}); p.cfg["dom5"] = r.range(1, 4);
    uint8_t nid = (uint8_t)p.cfg["nodeid"];
    std::vector<uint32_t> ids = {0x600u + nid, 0x600u + nid, 0x600u + nid, 0x640u + nid, 0, 0, 0x7E5, 0x80, 0x80, 0x589, 0x599, 0x70B, 0x70C, 0x70D, 0x200u + nid, 0x300u + nid, 0x400u + nid, 0x500u + nid};
    SdoDict sd; sd.build(p, 0);
    static const uint16_t cfgIdx[] = {0x1003, 0x1005, 0x1006, 0x1010, 0x1011, 0x1014, 0x1016, 0x1017, 0x1200, 0x1201, 0x1400, 0x1401, 0x1600, 0x1601, 0x1800, 0x1801, 0x1A00, 0x1A01, 0x2400, 0x1280, 0x1018, 0x1001};
    auto sdoFrame = [&]() { Frame f = r.chance(1, 2) ? sdo_garbage(r, sd) : Frame(); if (f.dlc == 0) { f.dlc = 8; static const uint8_t cmds[] = {0x23, 0x27, 0x2B, 0x2F, 0x40, 0x21, 0x22, 0xC2, 0xA0, 0x80, 0x60, 0x00, 0x01}; f.d[0] = cmds[r.below(sizeof cmds)]; uint16_t ix = cfgIdx[r.below(sizeof cfgIdx / 2)]; f.d[1] = (uint8_t)ix; f.d[2] = (uint8_t)(ix >> 8); f.d[3] = (uint8_t)r.below(10); uint32_t val = r.pick<uint32_t>({0, 1, 0x80000000u, 0x40000080u, 0x65766173, 0x64616F6C, 0x24000108, 0x24000220, 0x00050008, 0x00070020, 0xFFFFFFFFu, (uint32_t)r.next(), 0x000B0000 | r.below(60), 0x80000000u | (0x200u + nid), 0x40000000u | (0x180u + nid), 0x600u + nid, 0x80000600u}); f.d[4] = (uint8_t)val; f.d[5] = (uint8_t)(val >> 8); f.d[6] = (uint8_t)(val >> 16); f.d[7] = (uint8_t)(val >> 24); } return f; };
    int n = (int)r.range(5, thorough ? 400 : 150); bool strict = p.cfg["strict"] != 0;
    for (int i = 0; i < n; i++) {
        int c = (int)r.below(100); Op o;
        if (c < 28) { // structured frame on an identifier the node listens to
            uint32_t id = ids[r.below((uint32_t)ids.size())]; Frame f; f.dlc = 8;
            if ((id & 0x780) == 0x600) f = sdoFrame();
            else if (id == 0) { f.dlc = (uint8_t)r.pick<int>({2, 2, 2, 1, 0, 8}); f.d[0] = r.pick<uint8_t>({1, 2, 128, 129, 130, 0, 255}); f.d[1] = r.pick<uint8_t>({0, nid, (uint8_t)(nid + 1)}); }
            else if (id == 0x7E5) { f.d[0] = r.pick<uint8_t>({4, 64, 65, 66, 67, 17, 19, 21, 23, 90, 94, 70, 71, 72, 73, 74, 75, 76, 200}); uint32_t a = r.pick<uint32_t>({0, 1, 0x11111111, 0x22222222, 0x33333333, 0x44444444, (uint32_t)r.next()}); f.d[1] = (uint8_t)a; f.d[2] = (uint8_t)(a >> 8); f.d[3] = (uint8_t)(a >> 16); f.d[4] = (uint8_t)(a >> 24); }
            else if (id == 0x80) { f.dlc = (uint8_t)r.pick<int>({0, 0, 1, 8}); }
            else if ((id & 0x780) == 0x700) { f.dlc = (uint8_t)r.pick<int>({1, 1, 0, 8}); f.d[0] = r.pick<uint8_t>({5, 127, 4, 0, 0x85, 99}); }
            else if ((id & 0x7F0) == 0x580 || (id & 0x7F0) == 0x590) { f.d[0] = r.pick<uint8_t>({0x60, 0x43, 0x4F, 0x41, 0x00, 0x10, 0x01, 0x20, 0x30, 0x80, 0xFF}); f.d[1] = r.byte(); f.d[2] = r.byte(); for (int j = 4; j < 8; j++) f.d[j] = r.chance(1, 2) ? r.byte() : 0; }
            else { f.dlc = (uint8_t)r.pick<int>({8, 8, 8, 0, 1, 3}); for (int j = 0; j < 8; j++) f.d[j] = r.byte(); }
            if (r.chance(1, 12)) id += r.chance(1, 2) ? 1 : -1;
            o = Op("rx", {(int64_t)id, (int64_t)f.dlc, 1}, std::vector<uint8_t>(f.d, f.d + 8));
        }
        else if (c < 33) { // a run of identical (or sequence-numbered) SDO frames
            static const uint8_t heads[] = {0x81, 0x01, 0x03, 0x03, 0x13, 0x0D, 0x00, 0x10, 0x7F, 0xFF, 0xA2, 0xA3, 0x60, 0x70, 0xC1, 0xDD, 0x80, 0x21, 0xC2};
            Frame f; f.dlc = 8; f.d[0] = heads[r.below(sizeof heads)]; for (int j = 1; j < 8; j++) f.d[j] = r.chance(1, 2) ? r.byte() : (uint8_t)j; if ((f.d[0] & 0xE3) == 0xA2) { f.d[1] = r.pick<uint8_t>({0, 1, 63, 126, 127}); f.d[2] = r.pick<uint8_t>({1, 127, 0, 200}); }
            o = Op("rep", {(int64_t)(0x600u + nid + (r.chance(1, 6) ? 0x40 : 0)), 8, r.pick<int64_t>({2, 10, 126, 127, 128, 129, 140, 255, 299}), (int64_t)r.below(3)}, std::vector<uint8_t>(f.d, f.d + 8)); }
        else if (c < 34 && r.chance(1, 2)) { // composite: a block transfer driven to a block boundary, then an out-of-place frame
            bool up = r.chance(1, 2); p.ops.push_back(Op("sess", {0, (int64_t)r.range(14, 16), (int64_t)((up ? 1 : 0) | 2 << 1 | (r.below(2) << 3)), r.pick<int64_t>({889, 890, 1777, 1778, 3999, 895})}));
            p.ops.push_back(Op("sess", {6, 0, 0, r.pick<int64_t>({126, 127, 127, 128})}));
            Frame f; f.dlc = 8; f.d[0] = up ? r.pick<uint8_t>({0xA2, 0xA2, 0xA1, 0xA3}) : r.pick<uint8_t>({0xC1, 0xC5, 0xDD, 0xD9, 0x81, 0x7F, 0xFF}); f.d[1] = r.pick<uint8_t>({0, 1, 2, 63, 126, 127, 128}); f.d[2] = r.pick<uint8_t>({127, 1, 0, 64});
            o = Op("rx", {(int64_t)(0x600u + nid), 8, 1}, std::vector<uint8_t>(f.d, f.d + 8)); }
        else if (c < 36 && r.chance(1, 3)) { // block upload whose burst loses a frame to the driver, then acknowledges from the protocol's corner cases
            p.ops.push_back(Op("sess", {0, (int64_t)r.range(14, 16), (int64_t)(1 | 2 << 1 | (r.below(2) << 3)), r.pick<int64_t>({8, 15, 50, 889, 895, 1777})}));
            p.ops.push_back(Op("sendfailat", {r.chance(2, 3) ? r.range(0, 5) : r.range(0, 126), (int64_t)r.below(2)}));
            p.ops.push_back(Op("rx", {(int64_t)(0x600u + nid), 8, 1}, {0xA3, 0, 0, 0, 0, 0, 0, 0}));
            p.ops.push_back(Op("rx", {(int64_t)(0x600u + nid), 8, 1}, {0xA2, r.pick<uint8_t>({0, 0, 1, 2, 5, 127}), r.pick<uint8_t>({127, 2, 1, 64}), 0, 0, 0, 0, 0}));
            o = Op("rx", {(int64_t)(0x600u + nid), 8, 1}, {0xA2, r.pick<uint8_t>({0, 1, 2, 127}), r.pick<uint8_t>({127, 1, 7}), 0, 0, 0, 0, 0}); }
        else if (c < 36) { o = Op("sess", {6, 0, 0, r.pick<int64_t>({1, 5, 125, 126, 127, 128, 129, 199})}); }
        else if (c < 37 && r.chance(1, 2)) { // a complete small segmented or block download / block upload to a communication-profile entry, on either server: the typed objects get the transfer buffer, not the frame
            uint16_t ix = cfgIdx[r.below(sizeof cfgIdx / 2)]; uint8_t sub = (uint8_t)r.below(6); uint32_t size = r.pick<uint32_t>({4, 4, 4, 2, 1}); int64_t id = (int64_t)(0x600u + nid + (r.chance(1, 2) ? 0x40 : 0));
            uint32_t val = r.pick<uint32_t>({0, 1, 0x80000000u, 0x40000080u, 0x65766173, 0x64616F6C, 0x21000108, 0x00640002, 1000, 0x181, (uint32_t)r.next()}); int kind = (int)r.below(3);
            std::vector<uint8_t> a, b2, c2;
            if (kind == 0) { a = {0x21, (uint8_t)ix, (uint8_t)(ix >> 8), sub, (uint8_t)size, 0, 0, 0}; b2 = {(uint8_t)(0x01 | ((7 - size) << 1)), (uint8_t)val, (uint8_t)(val >> 8), (uint8_t)(val >> 16), (uint8_t)(val >> 24), 0, 0, 0}; }
            else if (kind == 1) { a = {0xC2, (uint8_t)ix, (uint8_t)(ix >> 8), sub, (uint8_t)size, 0, 0, 0}; b2 = {0x81, (uint8_t)val, (uint8_t)(val >> 8), (uint8_t)(val >> 16), (uint8_t)(val >> 24), 0, 0, 0}; c2 = {(uint8_t)(0xC1 | ((7 - size) << 2)), 0, 0, 0, 0, 0, 0, 0}; }
            else { a = {0xA0, (uint8_t)ix, (uint8_t)(ix >> 8), sub, 127, 0, 0, 0}; b2 = {0xA3, 0, 0, 0, 0, 0, 0, 0}; c2 = {0xA2, 1, 127, 0, 0, 0, 0, 0}; }
            p.ops.push_back(Op("rx", {id, 8, 1}, a)); if (!c2.empty()) { p.ops.push_back(Op("rx", {id, 8, 1}, b2)); o = Op("rx", {id, 8, 1}, c2); } else o = Op("rx", {id, 8, 1}, b2); }
        else if (c < 38 && r.chance(1, 2)) { // SDO client dialogue: mostly well-formed segments, sometimes more data than announced, wrong toggles, stray commands
            bool up = r.chance(2, 3); int64_t size = r.chance(1, 2) ? r.range(5, 40) : r.range(1, 600); int nseg = (int)((size + 6) / 7) + (int)r.range(-1, 3); if (nseg < 0) nseg = 0; if (nseg > 100) nseg = 100;
            o = Op("cdlg", {(int64_t)r.below(2), up ? 1 : 0, size - 1, (int64_t)(0x2000 + r.below(0x300)) | (int64_t)r.below(3) << 16, (int64_t)r.pick<int>({0, 5, 50}), up ? r.pick<int64_t>({0x41, 0x41, 0x41, 0x41, 0x40, 0x43, 0x4F, 0x42, 0x80}) : r.pick<int64_t>({0x60, 0x60, 0x60, 0x80, 0x20}), r.pick<int64_t>({0, 0, 0, 1, -1, 7, -7, 1000, 0xFFFFFFFFll, 0x7FFFFFFF})});
            for (int j = 0; j < nseg; j++) { uint8_t t = (uint8_t)((j & 1) << 4); uint8_t cb = up ? (uint8_t)(t | (r.chance(1, 6) ? r.below(8) << 1 : 0) | ((j == nseg - 1 && r.chance(2, 3)) || r.chance(1, 20) ? 1 : 0)) : (uint8_t)(0x20 | t); if (r.chance(1, 15)) cb ^= 0x10; if (r.chance(1, 30)) cb = r.byte(); o.b.push_back(cb); } }
        else if (c < 45) { o = Op("sess", {(int64_t)(r.chance(1, 5) ? 0 : r.chance(2, 3) ? 1 : r.range(2, 5)), (int64_t)r.below(256), (int64_t)r.below(256), (int64_t)r.pick<int64_t>({0, 3, 6, 7, 13, 100, 888, 889, 895, 1777, 3999, (int64_t)r.below(4100)})}); }
        else if (c < 53) { Frame f; for (int j = 0; j < 8; j++) f.d[j] = r.byte(); o = Op("rx", {r.chance(1, 10) ? (int64_t)(r.next() & 0x1FFFFFFF) : (int64_t)r.below(0x800), (int64_t)r.pick<int>({8, 8, 0, 1, 7, 9, 15}), 1}, std::vector<uint8_t>(f.d, f.d + 8)); }
        else if (c < 66) o = Op("tick", {r.pick<int64_t>({1, 1, 1, 2, 5, 10, 11, 50, 1000})});
        else if (c < 70) o = Op(strict ? "tick" : "process", {1});
        else if (c < 88 && r.chance(1, 8)) o = Op("cbapi", {r.chance(1, 3) ? r.pick<int64_t>({15, 15, 14, 24, 10}) : (int64_t)r.below(30), (int64_t)r.next() & 0xFFFFFF, (int64_t)r.below(256), (int64_t)(r.next() & 0xFFFFFFFF), (int64_t)r.below(7)});
        else if (c < 88) o = Op("api", {(int64_t)r.below(30), (int64_t)r.next() & 0xFFFFFF, (int64_t)r.below(256), (int64_t)(r.chance(1, 2) ? r.next() & 0xFFFFFFFF : r.pick<int64_t>({0, 1, 0x65766173, 0x64616F6C, 0x80000000ll, 255, 256, 4000, 4001}))});
        else if (c < 90) o = Op("sendfail", {r.range(1, 5)});
        else if (c < 92) o = Op("readerr", {r.range(1, 3), (int64_t)r.below(2)});
        else if (c < 94) o = Op("nvmfault", {(int64_t)r.below(2), (int64_t)r.below(3), (int64_t)r.below(8)});
        else if (c < 96) { Frame f = sdoFrame(); o = Op("burst", {r.range(2, 19), (int64_t)(0x600u + nid)}, std::vector<uint8_t>(f.d, f.d + 8)); }
        else if (c < 98) o = Op("canproc");
        else o = Op("init", {(int64_t)r.chance(4, 5)});
        if (!strict && r.chance(1, 3)) { int m = (int)r.range(1, 3); std::vector<uint8_t> pre; for (int j = 0; j < m; j++) pre.push_back((uint8_t)r.below(16)); o.a.push_back(-1); for (uint8_t x : pre) o.a.push_back(x); }
        p.ops.push_back(o);
    }
    return p;
}
Reg r01({"chaos", "C01", gen_chaos, [](const Plan &p, Cov &c, bool vb) { ChaosRun x(p, c, vb); return x.run(); }, nullptr, nullptr});

} // namespace
} // namespace sim
