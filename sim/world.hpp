// cosim world: simulated CAN / timer / NVM devices, application callbacks, dictionary builder,
// one or two real CO_NODE instances ("slots"). All state is owned by World; the stack is driven only
// through its public API and its driver tables.
#pragma once
#include "kernel.hpp"
#include <deque>
extern "C" {
#include "co_core.h"
}

namespace sim {

struct Frame {
    uint32_t id = 0; uint8_t dlc = 0; uint8_t d[8] = {0, 0, 0, 0, 0, 0, 0, 0};
    Frame() {}
    Frame(uint32_t i, uint8_t l, std::initializer_list<uint8_t> bytes) : id(i), dlc(l) { int k = 0; for (uint8_t b : bytes) { if (k < 8) d[k++] = b; } }
    Frame(uint32_t i, uint8_t l, const std::vector<uint8_t> &bytes) : id(i), dlc(l) { for (size_t k = 0; k < bytes.size() && k < 8; k++) d[k] = bytes[k]; }
    bool operator==(const Frame &o) const { return id == o.id && dlc == o.dlc && !memcmp(d, o.d, 8); }
    uint32_t u32(int p) const { return d[p] | d[p + 1] << 8 | d[p + 2] << 16 | (uint32_t)d[p + 3] << 24; }
    uint16_t u16(int p) const { return (uint16_t)(d[p] | d[p + 1] << 8); }
    std::string str() const { char b[64]; snprintf(b, sizeof b, "%03X#%u:%02X%02X%02X%02X%02X%02X%02X%02X", id, dlc, d[0], d[1], d[2], d[3], d[4], d[5], d[6], d[7]); return b; }
};

enum EvKind : uint8_t {
    EV_TX = 1, EV_TXFAIL, EV_FATAL, EV_MODECHANGE, EV_RESETREQ, EV_HBEVENT, EV_HBCHANGE, EV_LSSLOAD, EV_LSSSTORE,
    EV_CANRECEIVE, EV_PDOTRANSMIT, EV_PDORECEIVE, EV_SYNCUPDATE, EV_PARADEFAULT, EV_RPDOWRDATA, EV_TPDORDDATA,
    EV_TMRCB, EV_CSDODONE, EV_NVMW, EV_NVMR, EV_CANINIT, EV_CANENABLE, EV_CANRESET, EV_CANCLOSE, EV_NOTE
};
struct Ev {
    EvKind kind; uint8_t slot; uint64_t tick; uint32_t op; int64_t a = 0, b = 0, c = 0; Frame f;
};

enum OT : uint8_t { T_U8, T_U16, T_U32, T_DOMAIN, T_STRING, T_HBPROD, T_HBCONS, T_SYNCID, T_SYNCCYCLE, T_EMCYID, T_EMCYHIST, T_SDOID,
                    T_PDOID, T_PDOTYPE, T_PDOEVENT, T_PDONUM, T_PDOMAP, T_PARASTORE, T_PARARESTORE, T_USER, T_APP };
// T_APP: an application-defined object type (4 bytes, own storage) whose Read / Write functions call back into the stack. 'aux' = behaviour bits:
//   1 nested read: Read and Write first read the sibling entry (same index, sub-index + 1) through CODictRdByte and fail if that read fails
//   2 mode switch: Write stores the value, then calls CONmtSetMode(STOP) (a 'shut down' command object)
//   4 service lock: Write stores the value, then invalidates the first SDO server's request COB-ID 1200h:1 through CODictWrLong
enum { APP_NESTED_READ = 1, APP_MODE_STOP = 2, APP_LOCK_SDO = 4 };
struct AppObj { uint8_t val[4]; int beh; };
struct ParaSpec { uint32_t offset = 0, size = 0; int type = CO_RESET_NODE; uint32_t value = CO_PARA___E; };
struct ObjSpec {
    uint16_t idx = 0; uint8_t sub = 0; uint8_t flags = 0; OT type = T_U8;
    uint32_t val = 0;               // initial value (ints), abort code (T_USER)
    std::vector<uint8_t> bytes;     // domain / string content
    int aux = 0;                    // T_HBCONS: node id ; T_PARA*: index into World paras
    int pgrp = -1; uint32_t poff = 0;   // referenced integer storage inside the RAM image of parameter group 'pgrp' (at byte offset 'poff') instead of a block of its own
    uint32_t key() const { return CO_KEY(idx, sub, flags); }
};
static inline int ot_width(OT t, uint8_t sub) {
    switch (t) {
    case T_U8: case T_PDOTYPE: case T_PDONUM: return 1;
    case T_U16: case T_HBPROD: case T_PDOEVENT: return 2;
    case T_U32: case T_SYNCID: case T_SYNCCYCLE: case T_EMCYID: case T_SDOID: case T_PDOID: case T_PDOMAP: return 4;
    case T_HBCONS: case T_EMCYHIST: case T_PARASTORE: case T_PARARESTORE: return sub == 0 ? 1 : 4;
    default: return 0;
    }
}

struct NodeCfg {
    uint8_t nodeId = 1; uint32_t baud = 250000; uint32_t freq = 1000; uint16_t tmrNum = 16;
    size_t rxDepth = 64; bool strict = true;   // strict: every elapsed tick is followed by COTmrProcess
    uint32_t dictExtra = 1;                     // DictLen = entries + dictExtra (>= 1: end marker)
};

// Simulated devices + memory of one node.
struct Slot {
    bool alive = false;
    NodeCfg cfg;
    CO_NODE *node = nullptr; CO_NODE_SPEC spec; CO_IF_DRV drv;
    CO_OBJ *dict = nullptr; size_t ndict = 0; std::vector<ObjSpec> specs; // sorted like dict
    CO_TMR_MEM *tmrmem = nullptr; uint8_t *sdobuf = nullptr; CO_EMCY_TBL *emcy = nullptr; size_t nemcy = 0;
    std::vector<void *> allocs;     // everything handed to the node (freed on teardown)
    std::vector<CO_PARA *> paras; std::vector<uint8_t *> paraRam; std::vector<ParaSpec> paraSpecs;
    // CAN
    std::deque<Frame> rx; uint64_t rxOverruns = 0; bool canOpen = false;
    int sendFail = 0;               // next n Send() calls fail (return -1)
    int sendFailRet = -1;           // what a refused Send() returns: -1 (error) or 0 (nothing sent)
    int sendFailAfter = -1;         // >= 0: that many Send() calls succeed, the one after them fails (once)
    int readErr = 0;                // next n Read() calls return -1
    int readEmpty = 0;              // next n Read() calls return 0 although a frame waits
    uint32_t txInOp = 0;
    // timer hardware (down counter)
    uint32_t counter = 0; uint64_t now = 0;
    // NVM
    std::vector<uint8_t> nvm; uint64_t nvmWrites = 0, nvmReads = 0;
    int64_t nvmWriteFaultAt = -1; uint32_t nvmWriteShort = 0;    // k-th write (0-based) persists only 'short' bytes
    int64_t nvmReadFaultAt = -1; uint32_t nvmReadShort = 0;
    // LSS persistent cell
    bool lssStored = false; uint32_t lssBaud = 0; uint8_t lssNode = 0; int lssStoreFail = 0; int lssLoadFail = 0;
    bool lssLoadViaApi = false;     // the application's COLssLoad takes the stored node id over with CONmtSetNodeId (legal while the node is in INIT) instead of writing through the pointer
    // lock tracking
    int lockDepth = 0; bool lockUnbalanced = false; uint64_t lockStamp = 0;   // 'now' at the last outermost lock acquisition
    // scripted callback behaviour
    int pdoReceiveRet = 0; int paraDefaultRet = 0;
};

void paint_stack();
struct World {
    Slot s[2];
    int cur = 0;                    // slot the stack is currently executing for
    std::vector<Ev> evs;
    uint32_t opIndex = 0;
    Hash log; bool verbose = false; std::string text;
    bool fatal = false;
    // preemption: ISR ticks injected at the k-th preemption point of the current operation
    std::vector<uint32_t> preemptAt; uint32_t ppCount = 0; uint32_t ppFired = 0; bool inIsr = false;
    std::function<void(int site)> onPreemptPoint;   // optional monitor (C08 conservation walk)
    std::function<void(uint8_t)> onHbConsEvent;         // application code inside the CONmtHbConsEvent callback
    std::function<void(const Frame &)> onPdoTransmit;   // application code inside the COPdoTransmit callback (may call the stack's API)
    std::function<void(int)> onModeChange;              // ... inside CONmtModeChange(mode)
    std::function<void(int)> onResetRequest;            // ... inside CONmtResetRequest(type)
    std::function<void(uint8_t, int)> onHbConsChange;   // ... inside CONmtHbConsChange(node, state)
    std::function<void(const Frame &)> onPdoReceive;    // ... inside COPdoReceive (before the return value is given)
    std::function<void(int)> onSyncUpdate;              // ... inside COPdoSyncUpdate(rpdo number)
    std::function<void(const Frame &)> onCanReceive;    // ... inside COIfCanReceive
    std::function<void(void *)> tmrUserCb;          // application timer callback script
    std::function<void(CO_CSDO *, uint16_t, uint8_t, uint32_t)> csdoCb;

    World(); ~World();
    Slot &S() { return s[cur]; }
    CO_NODE *N(int slot = -1) { return s[slot < 0 ? cur : slot].node; }

    void ev(EvKind k, int64_t a = 0, int64_t b = 0, int64_t c = 0, const Frame *f = nullptr);
    size_t mark() const { paint_stack_hook(); return evs.size(); }   // called at the start of most operations: also normalises the stack
    static void paint_stack_hook();

    // ---- build / teardown
    void build(int slot, const NodeCfg &cfg, std::vector<ObjSpec> objs, const std::vector<ParaSpec> &paras = {},
               const std::vector<std::pair<uint8_t, uint16_t>> &emcyTbl = {}, size_t nvmSize = 0);
    void init(int slot);            // CONodeInit on the built memory
    void start(int slot);           // CONodeStart
    void teardown(int slot);
    // ---- objects (ground truth straight from storage)
    CO_OBJ *obj(int slot, uint16_t idx, uint8_t sub);
    const ObjSpec *ospec(int slot, uint16_t idx, uint8_t sub);
    uint32_t raw(int slot, uint16_t idx, uint8_t sub);                  // stored integer value (without node-id offset)
    void setraw(int slot, uint16_t idx, uint8_t sub, uint32_t v);
    std::vector<uint8_t> bytes(int slot, uint16_t idx, uint8_t sub);     // storage bytes of any object
    std::vector<uint8_t> image(int slot);                                // all object storage concatenated
    // ---- operations
    void rx(int slot, const Frame &f);
    void canproc(int slot);          // one CONodeProcess
    void drain(int slot, int max = 64);   // CONodeProcess until FIFO empty
    void tick(int slot, uint64_t n);  // n timer ticks (ISR), in strict mode followed by process
    void process(int slot);          // COTmrProcess
    void isr(int slot);              // exactly one tick, no processing
    void preemptPoint(int site);
    std::vector<Frame> txSince(size_t mark, int slot = -1, bool includeFailed = false);
    // timer pool occupancy through the public structure
    int tmrUsedActions(int slot);
};
extern World *W;

// helpers to compose dictionaries
void add_u8(std::vector<ObjSpec> &v, uint16_t idx, uint8_t sub, uint8_t flags, uint8_t val);
void add_u16(std::vector<ObjSpec> &v, uint16_t idx, uint8_t sub, uint8_t flags, uint16_t val);
void add_u32(std::vector<ObjSpec> &v, uint16_t idx, uint8_t sub, uint8_t flags, uint32_t val);
void add_typed(std::vector<ObjSpec> &v, OT t, uint16_t idx, uint8_t sub, uint8_t flags, uint32_t val, int aux = 0);
void add_domain(std::vector<ObjSpec> &v, uint16_t idx, uint8_t sub, uint8_t flags, const std::vector<uint8_t> &bytes);
void add_string(std::vector<ObjSpec> &v, uint16_t idx, uint8_t sub, const std::vector<uint8_t> &bytes);
void add_mandatory(std::vector<ObjSpec> &v, int nSsdo);   // 1000, 1001, 1018, 120x
void add_rpdo(std::vector<ObjSpec> &v, int num, uint32_t cobid, uint8_t type, const std::vector<uint32_t> &maps, bool writable = true);
void add_tpdo(std::vector<ObjSpec> &v, int num, uint32_t cobid, uint8_t type, uint16_t inhibit, uint16_t evtime, const std::vector<uint32_t> &maps, bool writable = true);

extern "C" const CO_OBJ_TYPE COTVerifUser;
extern "C" const CO_OBJ_TYPE COTVerifApp;   // user type: read/write fail with the application abort code in spec.val

} // namespace sim
