// C12 (tpdo): transmit PDOs against a discrete-event reference model, exact to the tick.
#include "node_env.hpp"

namespace sim {
namespace {

enum { M_INVALID = 0, M_INIT = 1, M_PREOP = 2, M_OP = 3, M_STOP = 4 };

struct MapEnt { uint16_t idx; uint8_t sub; uint8_t bytes; };   // mapped bytes 1,2,3,4 (3 = 24 bit of a 32-bit object)
struct ObjDef { uint16_t idx; uint8_t sub; uint8_t width; bool async; };

struct TpdoModel {
    bool exists = false; uint32_t cobid = 0; uint8_t type = 254; uint16_t inhRaw = 0, evRaw = 0; std::vector<MapEnt> map;
    // run-time (valid from activation)
    bool active = false; uint32_t inh = 0, ev = 0; uint8_t atype = 254; uint32_t id = 0;
    bool inhibited = false; uint64_t inhEnd = 0; bool pending = false;
    bool evOn = false; uint64_t evLo = 0, evHi = 0;    // event expiry window (lo == hi once the phase is known)
    uint32_t syncCnt = 0;
    bool valid() const { return (cobid & 0x80000000u) == 0; }
};
struct Emit { uint64_t tick; uint32_t id; uint8_t dlc; uint8_t d[8]; bool operator<(const Emit &o) const { if (tick != o.tick) return tick < o.tick; if (id != o.id) return id < o.id; if (dlc != o.dlc) return dlc < o.dlc; return memcmp(d, o.d, 8) < 0; } bool operator==(const Emit &o) const { return tick == o.tick && id == o.id && dlc == o.dlc && !memcmp(d, o.d, 8); } };

struct TpdoRun : NodeEnv {
    std::vector<int16_t> appTmr; bool unjudged = false; bool giveUp = false;
    std::vector<int> retrig = std::vector<int>(CO_TPDO_N, 0), retrigReal = std::vector<int>(CO_TPDO_N, 0);   // re-triggers left for the COPdoTransmit callback (model / real)
    int m = M_PREOP; std::vector<TpdoModel> T; std::vector<ObjDef> objs; std::vector<Emit> exp; std::map<uint32_t, uint32_t> val;   // model copy of the mapped objects' values
    uint32_t &mv(uint16_t idx, uint8_t sub) { return val[(uint32_t)idx << 8 | sub]; }
    TpdoRun(const Plan &p, Cov &c, bool vb) : NodeEnv(p, c, vb) {}
    uint32_t tkInh(uint16_t v) { return (uint32_t)((uint64_t)v * freq / 10000); }
    uint32_t tkEv(uint16_t v) { return (uint32_t)((uint64_t)v * freq / 1000); }
    const ObjDef *od(uint16_t idx, uint8_t sub) { for (auto &o : objs) if (o.idx == idx && o.sub == sub) return &o; return nullptr; }

    void build() {
        nodeId = 1; freq = (uint32_t)plan.c("freq", 1000);
        add_mandatory(specs, 1);
        add_typed(specs, T_SYNCID, 0x1005, 0, CO_OBJ_____RW, 0x80); add_typed(specs, T_SYNCCYCLE, 0x1006, 0, CO_OBJ_____RW, 0);
        // objects 2100h:1..12 : widths and async flags from the plan's "obj" setup ops
        add_u8(specs, 0x2100, 0, CO_OBJ_D___R_, 12);
        int no = 0;
        for (auto &o : plan.ops) if (o.k == "obj" && no < 12) { no++; ObjDef d{0x2100, (uint8_t)no, (uint8_t)(o.arg(0) == 1 ? 1 : o.arg(0) == 2 ? 2 : 4), o.arg(1) != 0}; objs.push_back(d);
            uint8_t fl = (uint8_t)(CO_OBJ____PRW | (d.async ? CO_OBJ___A___ : 0) | (o.arg(2) ? CO_OBJ_D_____ : 0)); add_typed(specs, d.width == 1 ? T_U8 : d.width == 2 ? T_U16 : T_U32, d.idx, d.sub, fl, (uint32_t)o.arg(3)); mv(d.idx, d.sub) = (uint32_t)o.arg(3) & (d.width == 4 ? 0xFFFFFFFFu : ((1u << (8 * d.width)) - 1)); }
        T.assign(CO_TPDO_N, TpdoModel());
        for (auto &o : plan.ops) if (o.k == "tpdo") {
            int n = (int)(o.arg(0) % CO_TPDO_N); TpdoModel &t = T[(size_t)n]; if (t.exists) continue; t.exists = true;
            t.cobid = 0x40000000u | (0x180u + 0x100u * (uint32_t)n + nodeId) | (o.arg(1) ? 0 : 0x80000000u); t.type = (uint8_t)o.arg(2); t.inhRaw = (uint16_t)o.arg(3); t.evRaw = (uint16_t)o.arg(4);
            if (t.type <= 240) { t.inhRaw = 0; }       // inhibit on synchronous types: not constrained, not generated
            uint32_t total = 0; std::vector<uint32_t> links;
            for (size_t i = 0; i + 1 < o.b.size(); i += 2) { if (objs.empty()) break; const ObjDef &d = objs[o.b[i] % objs.size()]; uint8_t by = d.width == 4 && (o.b[i + 1] & 1) ? 3 : d.width; if (t.type <= 240 && d.async) continue; bool dup = false; for (auto &me : t.map) if (me.sub == d.sub) dup = true; if (dup) continue; if (total + by > 8 || t.map.size() >= 8) break; total += by; t.map.push_back({d.idx, d.sub, by}); links.push_back(CO_LINK(d.idx, d.sub, by * 8)); }
            add_tpdo(specs, n, t.cobid, t.type, t.inhRaw, t.evRaw, links, true);
        }
        // an asynchronous RPDO that writes the first objects (a third way to change mapped values)
        { std::vector<uint32_t> links; uint32_t total = 0; for (size_t i = 0; i < objs.size() && i < 3; i++) { if (total + objs[i].width > 8) break; total += objs[i].width; links.push_back(CO_LINK(objs[i].idx, objs[i].sub, objs[i].width * 8)); } add_rpdo(specs, 0, 0x200u + nodeId, 254, links, false); rpdoObjs = links.size(); }
        NodeCfg cfg; cfg.nodeId = nodeId; cfg.freq = freq; cfg.tmrNum = 32;
        w.build(0, cfg, specs); w.init(0); w.start(0);
        w.onPdoTransmit = [this](const Frame &f) { for (size_t n = 0; n < T.size() && n < (size_t)CO_TPDO_N; n++) if (T[n].exists && T[n].active && T[n].id == f.id && retrigReal[n] > 0) { retrigReal[n]--; COTPdoTrigPdo(N()->TPdo, (uint16_t)n); return; } };
        if (CONodeGetErr(N()) != CO_ERR_NONE) fail("setup/node-error", "node reports an error after initialisation");
    }
    size_t rpdoObjs = 0;

    // ---- model
    void activate(TpdoModel &t, int num) {
        t.active = m == M_OP && t.exists && t.valid(); t.inhibited = false; t.pending = false; t.evOn = false; t.syncCnt = 0;
        if (!t.exists) return;
        t.inh = tkInh(t.inhRaw); t.atype = t.type; t.ev = (t.type >= 254) ? tkEv(t.evRaw) : 0; t.id = t.cobid & 0x7FF;
        if (m == M_OP && t.valid() && t.ev > 0) { t.evOn = true; t.evLo = now() + t.ev; t.evHi = now() + t.ev + CO_TPDO_N - 1; (void)num; }
    }
    void frameOf(TpdoModel &t, uint64_t tick) {
        Emit e; e.tick = tick; e.id = t.id; e.dlc = 0; memset(e.d, 0, 8);
        for (auto &me : t.map) { uint32_t v = mv(me.idx, me.sub); for (int i = 0; i < me.bytes; i++) e.d[e.dlc++] = (uint8_t)(v >> (8 * i)); }
        exp.push_back(e);
    }
    void tx(TpdoModel &t, uint64_t tick) {
        if (!t.active) return;
        if (t.inhibited) { t.pending = true; cov.hit("trigger-while-inhibited"); nontrivial = true; return; }
        t.evOn = false;
        if (t.inh > 0) { t.inhibited = true; t.inhEnd = tick + t.inh; }
        if (t.ev > 0) { t.evOn = true; t.evLo = t.evHi = tick + t.ev; }
        frameOf(t, tick);
        { size_t n = (size_t)(&t - &T[0]); if (n < retrig.size() && retrig[n] > 0 && t.atype >= 254) { retrig[n]--; cov.hit("trigger-from-inside-the-transmit-callback"); nontrivial = true; tx(t, tick); } }   // the application's COPdoTransmit callback triggers the same TPDO again
    }
    // advance the model over (from, to]; 'observed' = ticks at which frames of each TPDO id were seen in this operation
    void advance(uint64_t from, uint64_t to, const std::map<uint32_t, std::vector<uint64_t>> &observed) {
        for (auto &t : T) {
            if (!t.exists) continue;
            int guard = 0;
            while (guard++ < 100000) {
                // resolve the start-up phase of the event timer by observation (the property does not fix it)
                if (t.active && t.evOn && t.evLo != t.evHi) {
                    uint64_t pick = 0; bool found = false; auto it = observed.find(t.id);
                    if (it != observed.end()) for (uint64_t ot : it->second) if (ot >= t.evLo && ot <= t.evHi && ot > from) { pick = ot; found = true; break; }
                    if (found) t.evLo = t.evHi = pick; else if (t.evHi <= to) t.evHi = t.evLo; else { if (to + 1 > t.evLo) t.evLo = to + 1; if (t.evLo > t.evHi) t.evLo = t.evHi; }
                }
                uint64_t tI = t.inhibited ? t.inhEnd : ~0ull; uint64_t tE = (t.evOn && t.evLo == t.evHi) ? t.evLo : ~0ull;
                uint64_t next = std::min(tI, tE); if (next > to) break;
                if (tI <= tE) { // inhibit ends first (also on a tie)
                    t.inhibited = false; if (tI == tE) { cov.hit("inhibit-event-tie"); nontrivial = true; }
                    if (t.pending) { t.pending = false; if (t.active) { cov.hit("deferred-transmission"); tx(t, tI); } }
                } else { t.evOn = false; if (t.active) { if (t.inhibited) cov.hit("event-expiry-while-inhibited"); tx(t, tE); } }
            }
        }
    }
    void enterMode(int nm) { int old = m; m = nm; if (nm == M_OP && old != M_OP) { for (size_t i = 0; i < T.size(); i++) activate(T[i], (int)i); } else if (nm != M_OP) for (auto &t : T) { t.active = false; } }
    void triggerByObject(uint16_t idx, uint8_t sub, uint64_t tick) { const ObjDef *d = od(idx, sub); if (!d || !d->async) return; for (auto &t : T) if (t.exists && t.active) { int links = 0; for (auto &me : t.map) if (me.idx == idx && me.sub == sub) links++; for (int i = 0; i < links; i++) tx(t, tick); } }

    void op(const Op &o) {
        const std::string &k = o.k;
        if (k == "sync" && o.arg(0, 1) > 1) { int64_t cnt = std::min<int64_t>(o.arg(0), 2000); cov.hit("long-sync-run"); if (cnt >= 256) cov.hit("sync-run-of-256-or-more"); for (int64_t i = 0; i < cnt && v.ok; i++) op(Op("sync")); return; }   // every SYNC of a run is judged on its own
        size_t mk = w.mark(); uint64_t t0 = now(); exp.clear(); bool judge = true;
        if (k == "obj" || k == "tpdo") return;
        if (k == "retrig") { size_t n = (size_t)(o.arg(0) % CO_TPDO_N); if (!T[n].exists || T[n].type < 254) return; int c = (int)(o.arg(1) % 3) + 1; retrig[n] = c; retrigReal[n] = c; return; }
        // F15: the application takes every free timer slot. Capacity is what the property assumes, so from here on nothing is compared -
        // until the slots are given back, everything has settled, and the closing probe asks for the one thing that must survive: no trigger is lost for good
        if (k == "fill") { w.cur = 0; int16_t id; while ((id = COTmrCreate(&N()->Tmr, 1000000, 0, [](void *) {}, nullptr)) >= 0) appTmr.push_back(id); (void)CONodeGetErr(N()); unjudged = true; cov.hit("F15-timer-pool-exhausted"); nontrivial = true; return; }
        if (k == "drain") { w.cur = 0; for (int16_t id : appTmr) (void)COTmrDelete(&N()->Tmr, id); appTmr.clear(); (void)CONodeGetErr(N()); return; }
        if (k == "liveprobe") {
            if (!unjudged || !appTmr.empty() || m != M_OP) return; w.tick(0, 3000);   // every inhibit time and every deferred transmission is over
            for (int n = 0; n < CO_TPDO_N && v.ok; n++) { uint32_t cob = w.raw(0, (uint16_t)(0x1800 + n), 1); uint32_t ty = w.raw(0, (uint16_t)(0x1800 + n), 2); if (!w.ospec(0, (uint16_t)(0x1800 + n), 1) || (cob & 0x80000000u) || ty < 254) continue;
                size_t mk2 = w.mark(); w.cur = 0; COTPdoTrigPdo(N()->TPdo, (uint16_t)n); w.tick(0, 3000); bool seen = false; for (size_t i = mk2; i < w.evs.size(); i++) if ((w.evs[i].kind == EV_TX || w.evs[i].kind == EV_TXFAIL) && w.evs[i].f.id == (cob & 0x7FF)) seen = true;
                if (!seen) { fail("tpdo/trigger-lost-after-pool-exhaustion", "TPDO " + std::to_string(n) + " (" + hex(cob & 0x7FF) + ") triggered long after the timer pool had room again: nothing was sent within 3000 ticks"); return; } cov.hit("trigger-served-after-pool-exhaustion"); }
            return; }
        if (unjudged) judge = false;
        if (k == "sendfail") { S().sendFail = (int)(o.arg(0) % 4); cov.hit("F5-can-send-failure"); return; }   // the next n frames are refused by the CAN driver: an attempt counts as the transmission, nothing is retried
        if (k == "tick") { w.tick(0, (uint64_t)o.arg(0)); }
        else if (k == "nmt") { uint8_t cs = (uint8_t)o.arg(0); deliver(Frame(0, 2, {cs, 0})); if (cs == 1) enterMode(M_OP); else if (cs == 2) enterMode(M_STOP); else if (cs == 128) enterMode(M_PREOP); else if (cs == 129 || cs == 130) { enterMode(M_PREOP); } }
        else if (k == "wr" || k == "sdowr") {
            if (objs.empty()) return; const ObjDef &d = objs[(size_t)o.arg(0) % objs.size()]; uint32_t val = (uint32_t)o.arg(1) & (d.width == 4 ? 0xFFFFFFFFu : ((1u << (8 * d.width)) - 1)); uint32_t old = w.raw(0, d.idx, d.sub);
            if (k == "sdowr") { if (m != M_PREOP && m != M_OP) return; uint32_t ab = sdoWrite(d.idx, d.sub, val, d.width); if (ab) { fail("tpdo/object-write-refused", "SDO write to a mapped object refused with " + hex(ab)); return; } }
            else { w.cur = 0; CO_ERR e = d.width == 1 ? CODictWrByte(&N()->Dict, CO_DEV(d.idx, d.sub), (uint8_t)val) : d.width == 2 ? CODictWrWord(&N()->Dict, CO_DEV(d.idx, d.sub), (uint16_t)val) : CODictWrLong(&N()->Dict, CO_DEV(d.idx, d.sub), val); if (e != CO_ERR_NONE) { fail("tpdo/api-write-refused", "dictionary write returned " + std::to_string((int)e)); return; } }
            mv(d.idx, d.sub) = val;
            if (old != val) { triggerByObject(d.idx, d.sub, now()); cov.hit(d.async ? "async-object-changed" : "plain-object-changed"); } else if (d.async) cov.hit("async-object-rewritten-same-value");
        }
        else if (k == "rpdo") {
            if (rpdoObjs == 0) return; Frame f(0x200u + nodeId, 8, o.b); std::vector<uint32_t> olds; for (size_t i = 0; i < rpdoObjs; i++) olds.push_back(w.raw(0, objs[i].idx, objs[i].sub));
            deliver(f);
            if (m == M_OP) { int pos = 0; for (size_t i = 0; i < rpdoObjs; i++) { uint32_t nv = 0; for (int b = 0; b < objs[i].width; b++) nv |= (uint32_t)f.d[pos + b] << (8 * b); pos += objs[i].width; mv(objs[i].idx, objs[i].sub) = nv; if (nv != olds[i]) triggerByObject(objs[i].idx, objs[i].sub, now()); } }
            cov.hit("rpdo-writes-mapped-objects");
        }
        else if (k == "trigpdo") { int n = (int)(o.arg(0) % CO_TPDO_N); TpdoModel &t = T[(size_t)n]; if (t.exists && t.type <= 240) return; w.cur = 0; COTPdoTrigPdo(N()->TPdo, (uint16_t)n); if (t.exists) tx(t, now()); cov.hit(t.exists ? (t.valid() ? "trigger-valid" : "trigger-invalid-cobid") : "trigger-absent-tpdo"); }
        else if (k == "trigobj") { if (objs.empty()) return; const ObjDef &d = objs[(size_t)o.arg(0) % objs.size()]; bool inSync = false; for (auto &t : T) if (t.exists && t.type <= 240) for (auto &me : t.map) if (me.sub == d.sub) inSync = true; if (inSync) return; w.cur = 0; COTPdoTrigObj(N()->TPdo, w.obj(0, d.idx, d.sub)); for (auto &t : T) if (t.exists && t.active) { int links = 0; for (auto &me : t.map) if (me.idx == d.idx && me.sub == d.sub) links++; for (int i = 0; i < links; i++) tx(t, now()); } }
        else if (k == "sync") { deliver(Frame(0x80, 0, {})); if (m == M_OP) for (auto &t : T) if (t.exists && t.active && t.atype >= 1 && t.atype <= 240) { t.syncCnt++; if (t.syncCnt == t.atype) { t.syncCnt = 0; tx(t, now()); cov.hit("sync-nth"); } else cov.hit("sync-not-nth"); } }
        else if (k == "cobid") {
            if (m != M_PREOP && m != M_OP) return; int n = (int)(o.arg(0) % CO_TPDO_N); TpdoModel &t = T[(size_t)n]; if (!t.exists) return; bool makeValid = o.arg(1) != 0; if (makeValid == t.valid()) return;
            uint32_t nv = makeValid ? (t.cobid & ~0x80000000u) : (t.cobid | 0x80000000u); uint32_t ab = sdoWrite((uint16_t)(0x1800 + n), 1, nv, 4); if (ab) { fail("tpdo/cobid-write-refused", "valid-bit toggle refused with " + hex(ab)); return; }
            t.cobid = nv; if (m == M_OP) { activate(t, n); cov.hit(makeValid ? "revalidate-in-op" : "invalidate-in-op"); nontrivial = true; }
        }
        else if (k == "remap") {   // the canonical re-mapping sequence over SDO, to fewer objects: invalidate, count 0, count k (the first k entries stay as they are), validate - also while OPERATIONAL, next to other running TPDOs
            if (m != M_PREOP && m != M_OP) return; int n = (int)(o.arg(0) % CO_TPDO_N); TpdoModel &t = T[(size_t)n]; if (!t.exists || t.map.size() < 2) return; size_t kk = 1 + (size_t)o.arg(1) % (t.map.size() - 1); bool wasValid = t.valid();
            uint32_t ab = 0; if (wasValid) ab = sdoWrite((uint16_t)(0x1800 + n), 1, t.cobid | 0x80000000u, 4); if (!ab) ab = sdoWrite((uint16_t)(0x1A00 + n), 0, 0, 1); if (!ab) ab = sdoWrite((uint16_t)(0x1A00 + n), 0, (uint32_t)kk, 1); if (!ab && wasValid) ab = sdoWrite((uint16_t)(0x1800 + n), 1, t.cobid & ~0x80000000u, 4);
            if (ab) { giveUp = true; cov.hit("remap-refused-(not-judged-here)"); return; }
            t.map.resize(kk); if (wasValid && m == M_OP) activate(t, n); cov.hit("tpdo-remapped-to-fewer-objects"); nontrivial = true;
        }
        else if (k == "badwr") {   // a parameter write that CiA 301 forbids while the PDO is valid (other CAN-ID, other transmission type, extended frame): when it is refused, the running TPDO must not notice it
            if (m != M_PREOP && m != M_OP) return; int n = (int)(o.arg(0) % CO_TPDO_N); TpdoModel &t = T[(size_t)n]; if (!t.exists || !t.valid()) return; int kind = (int)(o.arg(1) % 3);
            uint32_t ab = kind == 0 ? sdoWrite((uint16_t)(0x1800 + n), 1, (t.cobid & ~0x7FFu) | ((t.cobid + 1 + (uint32_t)o.arg(2) % 5) & 0x7FF), 4) : kind == 1 ? sdoWrite((uint16_t)(0x1800 + n), 2, t.type <= 240 ? (t.type == 1 ? 2 : 1) : (t.type == 254 ? 255 : 254), 1) : sdoWrite((uint16_t)(0x1800 + n), 1, t.cobid | 0x20000000u, 4);
            if (ab == 0) { giveUp = true; cov.hit("forbidden-parameter-write-accepted-(not-judged-here)"); return; }   // accepting it is C14's business; this model cannot follow
            cov.hit("refused-parameter-write-on-running-tpdo"); if (m == M_OP && (t.inhibited || t.pending || t.syncCnt > 0 || t.evOn)) { cov.hit("refused-parameter-write-while-inhibit-event-or-sync-count-in-progress"); nontrivial = true; }
        }
        else if (k == "evtime") {
            if (m != M_PREOP && m != M_OP) return; int n = (int)(o.arg(0) % CO_TPDO_N); TpdoModel &t = T[(size_t)n]; if (!t.exists || t.type <= 240) return; uint16_t val16 = (uint16_t)o.arg(1);
            uint32_t ab = sdoWrite((uint16_t)(0x1800 + n), 5, val16, 2); if (ab) { fail("tpdo/evtime-write-refused", "event time write refused with " + hex(ab)); return; }
            t.evRaw = val16;
            if (m == M_OP && t.valid()) { t.ev = tkEv(val16); t.evOn = t.ev > 0; t.evLo = t.evHi = now() + t.ev; if (t.inhibited) { t.inhEnd = now() + t.inh; cov.hit("write-event-time-while-inhibited"); nontrivial = true; } cov.hit("write-event-time-while-running"); }
        }
        else if (k == "inhtime") { if (m != M_PREOP && m != M_OP) return; int n = (int)(o.arg(0) % CO_TPDO_N); TpdoModel &t = T[(size_t)n]; if (!t.exists || t.type <= 240 || t.valid()) return; uint16_t val = (uint16_t)o.arg(1); uint32_t ab = sdoWrite((uint16_t)(0x1800 + n), 3, val, 2); if (ab) { fail("tpdo/inhtime-write-refused", "inhibit time write refused with " + hex(ab)); return; } t.inhRaw = val; }
        safety();
        if (!judge || !v.ok) return;
        // observed frames of this operation
        std::vector<Emit> got; std::map<uint32_t, std::vector<uint64_t>> obs; int cbTx = 0;
        for (size_t i = mk; i < w.evs.size(); i++) { const Ev &e = w.evs[i]; if (e.kind == EV_PDOTRANSMIT) cbTx++; if (e.kind != EV_TX && e.kind != EV_TXFAIL) continue; if (e.f.id == 0x581 || e.f.id == 0x701) continue; Emit g; g.tick = e.tick; g.id = e.f.id; g.dlc = e.f.dlc; memcpy(g.d, e.f.d, 8); got.push_back(g); obs[e.f.id].push_back(e.tick); }
        advance(t0, now(), obs);
        std::sort(got.begin(), got.end()); std::sort(exp.begin(), exp.end());
        if (got != exp) {
            size_t i = 0; while (i < got.size() && i < exp.size() && got[i] == exp[i]) i++; char b[320];
            auto fs = [](const Emit &e) { char x[96]; snprintf(x, sizeof x, "(tick %llu id %X dlc %u data %02X%02X%02X%02X%02X%02X%02X%02X)", (unsigned long long)e.tick, e.id, e.dlc, e.d[0], e.d[1], e.d[2], e.d[3], e.d[4], e.d[5], e.d[6], e.d[7]); return std::string(x); };
            const char *rule;
            if (i < got.size() && (i >= exp.size() || got[i] < exp[i])) {
                bool sameButData = i < exp.size() && got[i].tick == exp[i].tick && got[i].id == exp[i].id; bool known = false; for (auto &t : T) if (t.exists && t.id == got[i].id) known = true;
                rule = sameButData ? (got[i].dlc != exp[i].dlc ? "tpdo/dlc" : "tpdo/data") : !known ? "tpdo/foreign-identifier" : "tpdo/unexpected-transmission";
                snprintf(b, sizeof b, "%s during %s: got %s%s%s [%zu sent, %zu expected, mode %d]", sameButData ? "wrong frame content" : "unexpected transmission", k.c_str(), fs(got[i]).c_str(), i < exp.size() ? ", model next " : "", i < exp.size() ? fs(exp[i]).c_str() : "", got.size(), exp.size(), m);
            } else { rule = "tpdo/missing-transmission"; snprintf(b, sizeof b, "transmission missing during %s: model %s [%zu sent, %zu expected, mode %d]", k.c_str(), fs(exp[i]).c_str(), got.size(), exp.size(), m); }
            fail(rule, b); return;
        }
        if (cbTx != (int)got.size()) fail("tpdo/transmit-callback", "COPdoTransmit called " + std::to_string(cbTx) + " times for " + std::to_string(got.size()) + " frames");
        cov.hit("frames-checked", exp.size());
        for (auto &d : objs) if (w.raw(0, d.idx, d.sub) != mv(d.idx, d.sub)) { fail("tpdo/object-value", "object 2100h:" + std::to_string(d.sub) + " holds " + hex(w.raw(0, d.idx, d.sub)) + ", model " + hex(mv(d.idx, d.sub))); return; }
    }
    Verdict run() {
        build();
        for (opi = 0; opi < (int)plan.ops.size() && v.ok && !giveUp; opi++) {
            const Op &o = plan.ops[(size_t)opi]; w.opIndex = (uint32_t)opi; cov.ops++;
            op(o);
            if (o.k == "obj" || o.k == "tpdo") continue;
            Hash h; h.str(o.k); h.u64((uint64_t)m); for (auto &t : T) { h.u64(t.active); h.u64(t.inhibited); h.u64(t.pending); h.u64(t.evOn); h.u64(t.atype <= 240 ? 0 : 1); } cov.pairs.insert(h.h); trace.u64(h.h); cov.states.insert(h.h);
        }
        finish(); return v;
    }
};

Plan gen_tpdo(Rng &r, bool thorough) {
    Plan p; uint32_t f = r.pick<uint32_t>({1000, 1000, 10000, 2000, 500}); p.cfg["freq"] = f; int64_t u = f >= 1000 ? 1 : 1000 / f;
    int nobj = (int)r.range(2, 10);
    for (int i = 0; i < nobj; i++) p.ops.push_back(Op("obj", {r.pick<int64_t>({1, 1, 2, 2, 4, 4}), (int64_t)r.chance(1, 2), (int64_t)r.below(2), (int64_t)r.below(0x10000) * 65537}));
    int ntp = (int)r.range(1, 4);
    for (int i = 0; i < ntp; i++) {
        int64_t type = r.chance(1, 3) ? r.pick<int64_t>({1, 1, 2, 3, 5, 240, 6, 7, 10, 100, 128, 239}) : r.pick<int64_t>({254, 255});
        int64_t inh = r.chance(1, 2) ? 0 : r.pick<int64_t>({1, 2, 3, 5, 10, 20}) * u * 10; int64_t ev = r.chance(1, 2) ? 0 : r.pick<int64_t>({1, 2, 3, 5, 10, 20}) * u;
        if (r.chance(1, 6) && inh) ev = inh / 10;           // inhibit == event
        Op t("tpdo", {i, (int64_t)r.chance(5, 6), type, inh, ev}); int nm = (int)r.range(1, 8); for (int j = 0; j < nm; j++) { t.b.push_back((uint8_t)r.below((uint32_t)nobj)); t.b.push_back(r.byte()); }
        p.ops.push_back(t);
    }
    if (r.chance(9, 10)) p.ops.push_back(Op("nmt", {1}));
    int n = (int)r.range(3, thorough ? 60 : 30);
    for (int i = 0; i < n; i++) {
        int c = (int)r.below(24);
        if (c < 7) p.ops.push_back(Op("tick", {r.chance(1, 2) ? r.range(1, 4) : r.pick<int64_t>({1, 2, 3, 5, 10, 20, 21, 40, 100}) * u * (int64_t)f / 1000 + (int64_t)r.below(2)}));
        else if (c < 11) p.ops.push_back(Op(r.chance(3, 4) ? "wr" : "sdowr", {(int64_t)r.below((uint32_t)nobj), r.chance(1, 4) ? 0 : (int64_t)r.below(0x10000) * 65537}));
        else if (c < 14) p.ops.push_back(Op("trigpdo", {(int64_t)r.below(4)}));
        else if (c == 14 && r.chance(1, 2)) p.ops.push_back(Op("retrig", {(int64_t)r.below(4), (int64_t)r.below(3)}));
        else if (c == 14) p.ops.push_back(Op("trigobj", {(int64_t)r.below((uint32_t)nobj)}));
        else if (c < 17) { if (r.chance(1, 12)) p.ops.push_back(Op("sync", {r.chance(1, 2) ? r.range(250, 600) : r.range(2, 1100)})); else p.ops.push_back(Op("sync")); }
        else if (c == 17) { std::vector<uint8_t> b; for (int j = 0; j < 8; j++) b.push_back(r.byte()); p.ops.push_back(Op("rpdo", {}, b)); }
        else if (c == 18) p.ops.push_back(r.chance(1, 3) ? Op("sendfail", {r.range(1, 3)}) : Op("nmt", {r.pick<int64_t>({1, 1, 2, 128, 130})}));
        else if (c < 21 && r.chance(1, 6)) p.ops.push_back(Op("remap", {(int64_t)r.below(4), (int64_t)r.below(8)}));
        else if (c < 21) p.ops.push_back(r.chance(1, 4) ? Op("badwr", {(int64_t)r.below(4), (int64_t)r.below(3), (int64_t)r.below(5)}) : Op("cobid", {(int64_t)r.below(4), (int64_t)r.below(2)}));
        else if (c < 23) p.ops.push_back(Op("evtime", {(int64_t)r.below(4), r.chance(1, 4) ? 0 : r.pick<int64_t>({1, 2, 3, 5, 10, 20}) * u}));
        else p.ops.push_back(Op("inhtime", {(int64_t)r.below(4), r.pick<int64_t>({0, 1, 5, 10}) * u * 10}));
    }
    if (r.chance(1, 10)) { // pool exhaustion episode, then the liveness probe
        p.ops.push_back(Op("nmt", {1})); p.ops.push_back(Op("fill")); int k = (int)r.range(2, 10);
        for (int i = 0; i < k; i++) { int c = (int)r.below(4); if (c == 0) p.ops.push_back(Op("tick", {r.range(1, 30)})); else if (c == 1) p.ops.push_back(Op("wr", {(int64_t)r.below((uint32_t)nobj), (int64_t)r.below(0x10000) * 65537})); else if (c == 2) p.ops.push_back(Op("trigpdo", {(int64_t)r.below(4)})); else p.ops.push_back(Op("sync")); }
        p.ops.push_back(Op("drain")); p.ops.push_back(Op("liveprobe")); }
    return p;
}
Reg r12({"tpdo", "C12", gen_tpdo, [](const Plan &p, Cov &c, bool vb) { TpdoRun x(p, c, vb); return x.run(); }, nullptr, nullptr});

} // namespace
} // namespace sim
