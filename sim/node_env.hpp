// Common environment for the full-node scenarios (NMT, heartbeat, SYNC, PDO, EMCY, parameters, LSS, ...).
#pragma once
#include "world.hpp"

namespace sim {

struct NodeEnv {
    World w; const Plan &plan; Cov &cov; Verdict v; int opi = 0; bool verbose; uint8_t nodeId = 1; uint32_t freq = 1000;
    std::vector<ObjSpec> specs; Hash trace; bool nontrivial = false; int slot = 0;
    NodeEnv(const Plan &p, Cov &c, bool vb) : plan(p), cov(c), verbose(vb) { w.verbose = vb; }
    void fail(const std::string &rule, const std::string &det) { v.fail(plan.property + "/" + rule, det, opi); }
    CO_NODE *N() { return w.N(slot); }
    Slot &S() { return w.s[slot]; }
    uint64_t now() { return S().now; }
    int mode() { return (int)CONmtGetMode(&N()->Nmt); }
    static std::string hex(uint32_t x) { char b[12]; snprintf(b, sizeof b, "%X", x); return b; }

    // events of one delivered frame
    struct Fx { std::vector<Frame> tx; int appRx = 0; std::vector<Ev> evs; };
    Fx collect(size_t mark) {
        Fx r; for (size_t i = mark; i < w.evs.size(); i++) { const Ev &e = w.evs[i]; if (e.slot != slot) continue; r.evs.push_back(e); if (e.kind == EV_TX || e.kind == EV_TXFAIL) { r.tx.push_back(e.f); cov.frames_out++; } else if (e.kind == EV_CANRECEIVE) r.appRx++; }
        return r;
    }
    Fx deliver(const Frame &f) { size_t m = w.mark(); w.rx(slot, f); w.canproc(slot); cov.frames_in++; safety(); if (S().txInOp > 127 + CO_TPDO_N + 2) fail("tx-bound", "more than the bounded number of frames while processing one received frame"); return collect(m); }
    void safety() {
        if (w.fatal) fail("fatal", "fatal error callback");
        if (S().lockUnbalanced) fail("lock/unbalanced", "unlock without lock");
    }
    // expedited SDO access through server 0 (ids 600h/580h + node id); returns abort code, 0 = confirmed, 0xFFFFFFFF = no/invalid response
    uint32_t sdoWrite(uint16_t idx, uint8_t sub, uint32_t val, int width, std::vector<Frame> *other = nullptr) {
        Frame f(0x600u + N()->NodeId, 8, {(uint8_t)(0x23 | (4 - width) << 2), (uint8_t)idx, (uint8_t)(idx >> 8), sub, (uint8_t)val, (uint8_t)(val >> 8), (uint8_t)(val >> 16), (uint8_t)(val >> 24)});
        Fx fx = deliver(f); uint32_t res = 0xFFFFFFFFu; int n = 0;
        for (auto &t : fx.tx) { if (t.id == 0x580u + N()->NodeId) { n++; if (t.d[0] == 0x60) res = 0; else if (t.d[0] == 0x80) res = t.u32(4); } else if (other) other->push_back(t); }
        if (n != 1) res = 0xFFFFFFFFu;
        return res;
    }
    uint32_t sdoRead(uint16_t idx, uint8_t sub, uint32_t &val) {
        Frame f(0x600u + N()->NodeId, 8, {0x40, (uint8_t)idx, (uint8_t)(idx >> 8), sub, 0, 0, 0, 0});
        Fx fx = deliver(f); uint32_t res = 0xFFFFFFFFu; int n = 0;
        for (auto &t : fx.tx) if (t.id == 0x580u + N()->NodeId) { n++; if ((t.d[0] & 0xF3) == 0x43) { res = 0; int w2 = 4 - ((t.d[0] >> 2) & 3); val = t.u32(4) & (w2 == 4 ? 0xFFFFFFFFu : ((1u << (8 * w2)) - 1)); } else if (t.d[0] == 0x80) res = t.u32(4); }
        if (n != 1) res = 0xFFFFFFFFu;
        return res;
    }
    void nmtCmd(uint8_t cs, uint8_t target = 0) { deliver(Frame(0, 2, {cs, target})); }
    uint32_t ticksMs(uint32_t ms) { return (uint32_t)((uint64_t)ms * freq / 1000); }
    void finish() { cov.runs++; cov.sim_seconds += (double)now() / (double)freq; if (nontrivial) { cov.nontrivial++; cov.traces.insert(trace.h); } v.loghash = w.log.h; if (verbose) fputs(w.text.c_str(), stdout); }
};

} // namespace sim
