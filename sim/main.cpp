// cosim runner: seeded search over plans, worker processes, crash attribution, minimisation, replay.
#include "kernel.hpp"
#include <unistd.h>
#include <sys/wait.h>
#include <sys/stat.h>
#include <signal.h>
#include <poll.h>
#include <sys/time.h>
#include <fcntl.h>
#include <time.h>
#include <errno.h>

using namespace sim;

// ---- sanitizer defaults (non-inline, kept by the linker)
extern "C" __attribute__((used)) const char *__asan_default_options() { return "exitcode=77:detect_leaks=0:abort_on_error=0:allocator_may_return_null=1:handle_abort=1"; }
extern "C" __attribute__((used)) const char *__ubsan_default_options() { return "halt_on_error=1:exitcode=78:print_stacktrace=1"; }

static double now_s() { struct timespec ts; clock_gettime(CLOCK_MONOTONIC, &ts); return ts.tv_sec + ts.tv_nsec * 1e-9; }
static const char *BUILD =
#ifdef COSIM_BUILD
    COSIM_BUILD;
#else
    "A";
#endif

static Scenario *find_scn(const std::string &n) { for (auto &s : registry()) if (s.name == n || s.property == n) return &s; return nullptr; }

// watchdog in CPU time of the process (ITIMER_PROF), not wall-clock: an endless loop burns CPU and is caught, a machine under load cannot fake one
static void on_alarm(int);
static void arm(int sec) { struct itimerval it; it.it_interval.tv_sec = 0; it.it_interval.tv_usec = 0; it.it_value.tv_sec = sec; it.it_value.tv_usec = 0; signal(SIGPROF, on_alarm); setitimer(ITIMER_PROF, &it, nullptr); }
static void on_alarm(int) { const char m[] = "\nCOSIM-HANG: operation did not terminate\n"; (void)!write(2, m, sizeof m - 1); _exit(79); }

// ---------------------------------------------------------------- crash signature from sanitizer output
static std::string crash_sig(const std::string &err, int status) {
    if (WIFEXITED(status) && WEXITSTATUS(status) == 79) return "crash/hang";
    std::string kind = "signal", func = "?";
    size_t p = err.find("SUMMARY: AddressSanitizer: ");
    if (p != std::string::npos) {
        size_t e = err.find('\n', p); std::string line = err.substr(p + 27, e == std::string::npos ? std::string::npos : e - p - 27);
        size_t sp = line.find(' '); kind = "asan-" + line.substr(0, sp);
        size_t in = line.rfind(" in "); if (in != std::string::npos) func = line.substr(in + 4);
    } else if ((p = err.find("runtime error: ")) != std::string::npos) {
        size_t e = err.find('\n', p); std::string msg = err.substr(p + 15, e - p - 15);
        kind = "ubsan-" + std::string(msg.find("out of bounds") != std::string::npos ? "bounds" : msg.find("misaligned") != std::string::npos ? "align" : msg.find("null pointer") != std::string::npos ? "null"
                                      : msg.find("overflow") != std::string::npos ? "overflow" : msg.find("shift") != std::string::npos ? "shift" : msg.find("not a valid value") != std::string::npos ? "enum" : "ub");
        size_t f0 = err.find("#0 ", e); if (f0 != std::string::npos) { size_t in = err.find(" in ", f0); size_t fe = err.find_first_of(" \n", in + 4); if (in != std::string::npos) func = err.substr(in + 4, fe - in - 4); }
    } else if (WIFSIGNALED(status)) kind = "signal-" + std::to_string(WTERMSIG(status));
    else if (WIFEXITED(status)) kind = "exit-" + std::to_string(WEXITSTATUS(status));
    while (!func.empty() && (func.back() == ' ' || func.back() == '\r')) func.pop_back();
    return "crash/" + kind + "/" + func;
}

// ---------------------------------------------------------------- one evaluation; in the valgrind build a memcheck report during the plan is a violation
#ifdef COSIM_VALGRIND
#include <valgrind/memcheck.h>
#define TSCALE 40
#else
#define TSCALE 1
#endif
static std::string g_self = "/proc/self/exe";
static Verdict run_scn(Scenario &sc, const Plan &p, Cov &cov, bool verbose) {
#ifdef COSIM_VALGRIND
    unsigned e0 = VALGRIND_COUNT_ERRORS;
#endif
    Verdict v = sc.run(p, cov, verbose);
#ifdef COSIM_VALGRIND
    unsigned e1 = VALGRIND_COUNT_ERRORS;
    if (e1 > e0 && v.ok) v.fail(p.property + "/memcheck/error", std::to_string(e1 - e0) + " memcheck report(s) while executing this plan (replay under valgrind with the unsanitised build for the stack trace)", -1);
#endif
    return v;
}
// first frame of the first memcheck report: "==pid==    at 0x...: function (file:line)"
static std::string memcheck_func(const std::string &err) {
    size_t p = err.find("   at 0x"); if (p == std::string::npos) return "error";
    size_t c = err.find(": ", p); if (c == std::string::npos) return "error"; size_t e = err.find_first_of(" \n", c + 2);
    return err.substr(c + 2, e == std::string::npos ? std::string::npos : e - c - 2);
}

// ---------------------------------------------------------------- evaluate one plan in a forked child
struct EvalResult { Verdict v; bool crashed = false; std::string err; };
static std::string g_tmpdir;
static EvalResult eval_child(Scenario &sc, const Plan &p, bool verbose = false) {
    EvalResult r; int fd[2]; if (pipe(fd)) { r.v.fail("machinery/pipe", "", -1); return r; }
    std::string errf = g_tmpdir + "/eval." + std::to_string(getpid()) + ".err";
    fflush(stdout); fflush(stderr);
    pid_t pid = fork();
    if (pid == 0) {
        close(fd[0]); int ef = open(errf.c_str(), O_WRONLY | O_CREAT | O_TRUNC, 0644); if (ef >= 0) { dup2(ef, 2); close(ef); }
        arm(3 * TSCALE);
        Cov cov; Verdict v = run_scn(sc, p, cov, verbose);
        std::string out = std::string(v.ok ? "1" : "0") + "\n" + v.sig + "\n" + std::to_string(v.op) + "\n" + std::to_string(v.loghash) + "\n" + v.detail + "\n";
        (void)!write(fd[1], out.data(), out.size()); fflush(stdout); _exit(0);
    }
    close(fd[1]); std::string out; char buf[4096]; ssize_t n; while ((n = read(fd[0], buf, sizeof buf)) > 0) out.append(buf, (size_t)n); close(fd[0]);
    int st = 0; waitpid(pid, &st, 0);
    r.err = read_file(errf); unlink(errf.c_str());
#ifdef COSIM_VALGRIND
    if (const char *vl = getenv("COSIM_VGLOG")) { std::string f = std::string(vl) + "." + std::to_string(pid); r.err += read_file(f); unlink(f.c_str()); }   // valgrind --log-file=$COSIM_VGLOG.%p
#endif
    if (!WIFEXITED(st) || WEXITSTATUS(st) != 0) { r.crashed = true; r.v.ok = false; r.v.sig = p.property + "/" + crash_sig(r.err, st); size_t q = r.err.find("ERROR:"); if (q == std::string::npos) q = r.err.find("runtime error"); r.v.detail = q == std::string::npos ? r.err.substr(0, 300) : r.err.substr(q, 420); return r; }
    size_t a = out.find('\n'), b = out.find('\n', a + 1), c = out.find('\n', b + 1), d = out.find('\n', c + 1);
    if (a == std::string::npos || d == std::string::npos) { r.v.fail("machinery/eval-output", out, -1); return r; }
    r.v.ok = out[0] == '1'; r.v.sig = out.substr(a + 1, b - a - 1); r.v.op = atoi(out.substr(b + 1, c - b - 1).c_str()); r.v.loghash = strtoull(out.substr(c + 1, d - c - 1).c_str(), nullptr, 10); r.v.detail = out.substr(d + 1);
    while (!r.v.detail.empty() && r.v.detail.back() == '\n') r.v.detail.pop_back();
    if (!r.v.ok && r.v.sig == p.property + "/memcheck/error") { r.v.sig = p.property + "/memcheck/" + memcheck_func(r.err); r.v.detail += "\n" + r.err.substr(0, 900); }
    return r;
}

// ---------------------------------------------------------------- minimisation (ddmin + argument simplification), same signature only
static Plan minimise(Scenario &sc, Plan p, const std::string &sig, int &evals, double budget_s = 25, int maxEvals = 1500) {
    double t0 = now_s();
    auto same = [&](const Plan &c) { if (evals >= maxEvals || now_s() - t0 > budget_s) return false; evals++; EvalResult r = eval_child(sc, c); return !r.v.ok && r.v.sig == sig; };
    // ddmin on ops
    size_t n = 2;
    while (p.ops.size() >= 2) {
        size_t len = p.ops.size(); size_t chunk = (len + n - 1) / n; bool reduced = false;
        for (size_t start = 0; start < len; start += chunk) {
            Plan c = p; c.ops.erase(c.ops.begin() + (long)start, c.ops.begin() + (long)std::min(len, start + chunk));
            if (same(c)) { p = c; n = n > 2 ? n - 1 : 2; reduced = true; break; }
        }
        if (!reduced) { if (chunk <= 1) break; n = std::min(len, n * 2); }
        if (evals >= maxEvals || now_s() - t0 > budget_s) break;
    }
    // single removal sweep (from the end)
    for (size_t i = p.ops.size(); i-- > 0;) { if (p.ops.size() <= 1) break; Plan c = p; c.ops.erase(c.ops.begin() + (long)i); if (same(c)) p = c; }
    // argument simplification
    for (size_t i = 0; i < p.ops.size(); i++) {
        for (size_t j = 0; j < p.ops[i].a.size(); j++) {
            int64_t v = p.ops[i].a[j]; if (v == 0) continue;
            for (int64_t cand : {(int64_t)0, (int64_t)1, v / 2, v - 1}) { if (cand == v || (cand < 0) != (v < 0) && cand != 0) continue; Plan c = p; c.ops[i].a[j] = cand; if (same(c)) { p = c; break; } }
        }
        if (p.ops[i].b.size() > 1) { Plan c = p; c.ops[i].b.resize(p.ops[i].b.size() / 2); if (same(c)) p = c; }
        bool nz = false; for (uint8_t x : p.ops[i].b) nz |= x != 0;
        if (nz) { Plan c = p; std::fill(c.ops[i].b.begin(), c.ops[i].b.end(), 0); if (same(c)) p = c; }
    }
    return p;
}

// ---------------------------------------------------------------- coverage (de)serialisation worker -> parent
static void cov_write(const Cov &c, const std::string &path) {
    std::string tmp = path + ".tmp"; FILE *f = fopen(tmp.c_str(), "wb"); if (!f) return;
    fprintf(f, "%llu %llu %llu %llu %llu %.6f\n", (unsigned long long)c.runs, (unsigned long long)c.nontrivial, (unsigned long long)c.ops, (unsigned long long)c.frames_in, (unsigned long long)c.frames_out, c.sim_seconds);
    fprintf(f, "%zu\n", c.cnt.size()); for (auto &kv : c.cnt) fprintf(f, "%s %llu\n", kv.first.c_str(), (unsigned long long)kv.second);
    auto ws = [&](const std::set<uint64_t> &s) { fprintf(f, "%zu\n", s.size()); for (uint64_t x : s) fwrite(&x, 8, 1, f); fprintf(f, "\n"); };
    ws(c.states); ws(c.pairs); ws(c.traces); fclose(f); rename(tmp.c_str(), path.c_str());
}
static bool cov_merge(Cov &c, const std::string &path) {
    FILE *f = fopen(path.c_str(), "rb"); if (!f) return false;
    unsigned long long a, b, d, e, g; double ss; if (fscanf(f, "%llu %llu %llu %llu %llu %lf\n", &a, &b, &d, &e, &g, &ss) != 6) { fclose(f); return false; }
    c.runs += a; c.nontrivial += b; c.ops += d; c.frames_in += e; c.frames_out += g; c.sim_seconds += ss;
    size_t n; if (fscanf(f, "%zu\n", &n) != 1) { fclose(f); return false; }
    for (size_t i = 0; i < n; i++) { char k[256]; unsigned long long v; if (fscanf(f, "%255s %llu\n", k, &v) != 2) break; c.cnt[k] += v; }
    auto rs = [&](std::set<uint64_t> &s) { size_t m; if (fscanf(f, "%zu\n", &m) != 1) return; for (size_t i = 0; i < m; i++) { uint64_t x; if (fread(&x, 8, 1, f) != 1) break; s.insert(x); } (void)!fscanf(f, "\n"); };
    rs(c.states); rs(c.pairs); rs(c.traces); fclose(f); return true;
}

// ---------------------------------------------------------------- plans by index
static Plan plan_for(Scenario &sc, uint64_t base, uint64_t i, bool thorough) {
    uint64_t seed = mix3(base, std::hash<std::string>()(sc.name) & 0xffffffff, i);
    Rng rng(seed); Plan p = sc.gen(rng, thorough); p.seed = seed; p.scenario = sc.name; p.property = sc.property; p.build = BUILD; return p;
}
// variant 0 = the generated plan, 1 = its fault-free 'clean' form, 2.. = one injected fault each (sweep)
static Plan variant_plan(Scenario &sc, const Plan &p, uint32_t vi) {
    if (vi == 0 || !sc.sweep) return p;
    if (vi == 1) return sc.clean ? sc.clean(p) : p;
    auto e = sc.sweep(p); if (e.empty()) return p; return e[std::min<size_t>(vi - 2, e.size() - 1)];
}

struct Viol { uint64_t index; uint32_t variant; std::string sig; };

// ---------------------------------------------------------------- known findings
struct Known { std::string property, sig, text; };
static std::vector<Known> load_known(const std::string &path) {
    std::vector<Known> r; std::string t = read_file(path); size_t p = 0;
    while (p < t.size()) { size_t e = t.find('\n', p); if (e == std::string::npos) e = t.size(); std::string l = t.substr(p, e - p); p = e + 1;
        if (l.rfind("open:", 0) != 0) continue; Known k; size_t a = l.find("property="); size_t b = l.find("sig=");
        if (a == std::string::npos || b == std::string::npos) continue; k.property = l.substr(a + 9, l.find(' ', a) - a - 9); size_t se = l.find(' ', b); k.sig = l.substr(b + 4, se == std::string::npos ? std::string::npos : se - b - 4); k.text = se == std::string::npos ? "" : l.substr(se + 1); r.push_back(k); }
    return r;
}

static std::string sample_json(const Plan &p, size_t maxOps = 30) {
    Plan q = p; bool cut = q.ops.size() > maxOps; if (cut) q.ops.resize(maxOps);
    std::string s = plan_json(q, false); if (cut) { s.pop_back(); s.pop_back(); s += ",{\"k\":\"...truncated\",\"a\":[" + std::to_string(p.ops.size()) + "]}]}"; }
    return s;
}

static int cmd_replay(int argc, char **argv) {
    if (argc < 3) return 2; bool verbose = false, inproc = false; std::string outdir = "/verif/out";
    for (int i = 3; i < argc; i++) { if (!strcmp(argv[i], "--verbose")) verbose = true; else if (!strcmp(argv[i], "--inproc")) inproc = true; else if (!strcmp(argv[i], "--outdir") && i + 1 < argc) outdir = argv[++i]; }
    Plan p; if (!plan_from_json(read_file(argv[2]), p)) { fprintf(stderr, "cannot parse %s\n", argv[2]); return 2; }
    if (p.build != BUILD) { fprintf(stderr, "replay file is for build %s, this is build %s\n", p.build.c_str(), BUILD); return 2; }
    Scenario *sc = find_scn(p.scenario); if (!sc) { fprintf(stderr, "unknown scenario %s\n", p.scenario.c_str()); return 2; }
    Verdict v;
    if (inproc) { arm(20 * TSCALE); Cov cov; v = run_scn(*sc, p, cov, verbose); }   // for gdb; sanitizer reports end the process
    else { mkdir(outdir.c_str(), 0755); g_tmpdir = outdir; fflush(stdout); if (verbose) { Cov c; } EvalResult r = eval_child(*sc, p, verbose); v = r.v; }
    if (v.ok) { printf("REPLAY ok loghash=%llu\n", (unsigned long long)v.loghash); return 0; }
    printf("REPLAY VIOLATION property=%s sig=%s op=%d loghash=%llu\n  %s\n", p.property.c_str(), v.sig.c_str(), v.op, (unsigned long long)v.loghash, v.detail.substr(0, 900).c_str());
    return 1;
}

static int cmd_run(int argc, char **argv) {
    if (argc < 3) return 2;
    Scenario *sc = find_scn(argv[2]); if (!sc) { fprintf(stderr, "unknown scenario %s\n", argv[2]); return 2; }
    uint64_t seed = 1, runs = 1000; int jobs = 8; bool thorough = false; std::string out, outdir = "/verif/out", known = "/verif/KNOWN_FINDINGS.txt", trace; uint64_t first = 0;
    for (int i = 3; i < argc; i++) { std::string a = argv[i]; auto nx = [&]() { return std::string(i + 1 < argc ? argv[++i] : ""); };
        if (a == "--seed") seed = strtoull(nx().c_str(), 0, 10); else if (a == "--runs") runs = strtoull(nx().c_str(), 0, 10); else if (a == "--jobs") jobs = atoi(nx().c_str());
        else if (a == "--tier") thorough = nx() == "thorough"; else if (a == "--out") out = nx(); else if (a == "--outdir") outdir = nx(); else if (a == "--known") known = nx(); else if (a == "--trace") trace = nx(); else if (a == "--first") first = strtoull(nx().c_str(), 0, 10); }
    if (jobs < 1) jobs = 1;
    mkdir(outdir.c_str(), 0755); mkdir((outdir + "/replays").c_str(), 0755);
    g_tmpdir = outdir + "/tmp." + std::to_string(getpid()); mkdir(g_tmpdir.c_str(), 0755);
    double t0 = now_s();
    std::vector<Viol> viols; Cov total; uint64_t evaluations = 0; int machinery = 0;
    std::vector<std::string> traceLines(trace.empty() ? 0 : runs);

    struct Wk { pid_t pid = -1; int fd = -1; uint64_t next; uint64_t curIdx = 0; uint32_t curVar = 0; bool inRun = false; std::string buf; int inc = 0; bool done = false; bool restart = false; };
    std::vector<Wk> wk((size_t)jobs);
    auto spawn = [&](int w) {
        int fd[2]; if (pipe(fd)) { machinery++; wk[(size_t)w].done = true; return; }
        fflush(stdout); fflush(stderr);
        pid_t pid = fork();
        if (pid == 0) {
            close(fd[0]); for (auto &o : wk) if (o.fd >= 0) close(o.fd);
            std::string errf = g_tmpdir + "/w" + std::to_string(w) + "." + std::to_string(wk[(size_t)w].inc) + ".err";
            int ef = open(errf.c_str(), O_WRONLY | O_CREAT | O_TRUNC, 0644); if (ef >= 0) { dup2(ef, 2); close(ef); }
            FILE *pf = fdopen(fd[1], "w"); Cov cov; std::string covf = g_tmpdir + "/w" + std::to_string(w) + "." + std::to_string(wk[(size_t)w].inc) + ".cov"; uint64_t k = 0;
            for (uint64_t i = wk[(size_t)w].next; i < runs; i += (uint64_t)jobs) {
                fprintf(pf, "B %llu\n", (unsigned long long)i); fflush(pf);
                Plan p = plan_for(*sc, seed, first + i, thorough);
                std::vector<Plan> vs{p}; bool swept = false;
                for (uint32_t vi = 0; vi < vs.size(); vi++) {
                    if (vi) { fprintf(pf, "V %llu %u\n", (unsigned long long)i, vi); fflush(pf); }
                    arm(5 * TSCALE);
                    Verdict v = run_scn(*sc, vs[vi], cov, false);
                    arm(0);
                    fprintf(pf, "R %llu %u %llu %llu %d %s\n", (unsigned long long)i, vi, (unsigned long long)plan_hash(vs[vi]), (unsigned long long)v.loghash, v.ok ? 1 : 0, v.ok ? "-" : v.sig.c_str());
#ifdef COSIM_VALGRIND
                    if (!v.ok && v.sig.find("/memcheck/") != std::string::npos) { cov_write(cov, covf); fprintf(pf, "X\n"); fflush(pf); _exit(0); }   // restart: memcheck does not stop at an invalid write, the heap of this worker is no longer trustworthy
#endif
                    if (!v.ok) break;                       // a failing base or clean plan is not swept
                    if (sc->sweep && vi == 0) vs.push_back(sc->clean ? sc->clean(p) : p);
                    else if (sc->sweep && vi == 1 && !swept) { swept = true; arm(5 * TSCALE); auto e = sc->sweep(p); arm(0); vs.insert(vs.end(), e.begin(), e.end()); }
                }
                if (++k % 1000 == 0) { cov_write(cov, covf); fflush(pf); }
            }
            cov_write(cov, covf); fprintf(pf, "E\n"); fflush(pf); _exit(0);
        }
        close(fd[1]); wk[(size_t)w].pid = pid; wk[(size_t)w].fd = fd[0]; wk[(size_t)w].buf.clear(); wk[(size_t)w].inRun = false;
    };
    for (int w = 0; w < jobs; w++) { wk[(size_t)w].next = (uint64_t)w; if ((uint64_t)w < runs) spawn(w); else wk[(size_t)w].done = true; }
    int crashes = 0; bool gaveUp = false;
    auto handle_line = [&](Wk &k, const std::string &l) {
        if (l[0] == 'B') { k.curIdx = strtoull(l.c_str() + 2, 0, 10); k.curVar = 0; k.inRun = true; }
        else if (l[0] == 'V') { unsigned long long i; unsigned v; sscanf(l.c_str() + 2, "%llu %u", &i, &v); k.curVar = v; }
        else if (l[0] == 'R') { unsigned long long i, ph, lh; unsigned v; int ok; char sig[512]; sig[0] = 0; sscanf(l.c_str() + 2, "%llu %u %llu %llu %d %511[^\n]", &i, &v, &ph, &lh, &ok, sig);
            evaluations++; if (!ok) viols.push_back({i, v, sig}); if (!trace.empty() && i < traceLines.size()) traceLines[i] += l + "\n"; }
        else if (l[0] == 'E') { k.inRun = false; k.done = true; }
        else if (l[0] == 'X') { k.inRun = false; k.restart = true; }
    };
    while (true) {
        std::vector<pollfd> pf; std::vector<int> idx;
        for (int w = 0; w < jobs; w++) if (wk[(size_t)w].fd >= 0) { pf.push_back({wk[(size_t)w].fd, POLLIN, 0}); idx.push_back(w); }
        if (pf.empty()) break;
        if (poll(pf.data(), pf.size(), 1000) < 0 && errno != EINTR) break;
        for (size_t q = 0; q < pf.size(); q++) {
            if (!(pf[q].revents & (POLLIN | POLLHUP))) continue;
            Wk &k = wk[(size_t)idx[q]]; char buf[65536]; ssize_t n = read(k.fd, buf, sizeof buf);
            if (n > 0) { k.buf.append(buf, (size_t)n); size_t p; while ((p = k.buf.find('\n')) != std::string::npos) { std::string l = k.buf.substr(0, p); k.buf.erase(0, p + 1); if (!l.empty()) handle_line(k, l); } continue; }
            // EOF: worker ended
            close(k.fd); k.fd = -1; int st = 0; waitpid(k.pid, &st, 0);
            cov_merge(total, g_tmpdir + "/w" + std::to_string(idx[q]) + "." + std::to_string(k.inc) + ".cov");
            if (k.done) continue;
            if (k.restart) { k.restart = false; k.next = k.curIdx + (uint64_t)jobs; k.inc++; if (k.next < runs) spawn(idx[q]); else k.done = true; continue; }
            // died inside a run
            std::string err = read_file(g_tmpdir + "/w" + std::to_string(idx[q]) + "." + std::to_string(k.inc) + ".err");
            if (!k.inRun) { machinery++; fprintf(stderr, "worker %d died outside a run (status %d)\n%s\n", idx[q], st, err.substr(0, 2000).c_str()); continue; }
            viols.push_back({k.curIdx, k.curVar, sc->property + "/" + crash_sig(err, st)}); evaluations++; crashes++;
            k.next = k.curIdx + (uint64_t)jobs; k.inc++;
            if (crashes > 40) { gaveUp = true; k.done = true; continue; }
            if (k.next < runs) spawn(idx[q]); else k.done = true;
        }
    }
    double tSearch = now_s() - t0;
    // ---- classify violations by signature, gate, minimise, replay
    std::vector<Known> kn = load_known(known);
    std::map<std::string, Viol> firstOf; for (auto &v : viols) if (!firstOf.count(v.sig) || v.index < firstOf[v.sig].index) firstOf[v.sig] = v;
    std::map<std::string, int> countOf; for (auto &v : viols) countOf[v.sig]++;
    int unknownViol = 0, knownViol = 0; std::string violJson; int handled = 0;
    for (auto &kv : firstOf) {
        const Viol &v = kv.second; bool isKnown = false; std::string ktext; std::string sigFinal = kv.first;
        std::string replayPath; std::string detail; size_t opsBefore = 0, opsAfter = 0; int evals = 0;
        if (handled < 6) {
            handled++;
            Plan p = plan_for(*sc, seed, first + v.index, thorough); Plan bad = variant_plan(*sc, p, v.variant);
            EvalResult r1 = eval_child(*sc, bad), r2 = eval_child(*sc, bad);
            // a memory error may be classified differently in a worker with a long heap history (e.g. 'unknown-crash' vs
            // 'heap-buffer-overflow'): the fresh child is the reference, as long as it fails and does so reproducibly
            std::string sigUsed = kv.first;
            if (!r1.v.ok && !r2.v.ok && r1.v.sig == r2.v.sig && r1.v.loghash == r2.v.loghash && r1.v.sig != kv.first && (kv.first.find("/crash/") != std::string::npos || kv.first.find("/memcheck/") != std::string::npos) && (r1.crashed || r1.v.sig.find("/memcheck/") != std::string::npos)) { fprintf(stderr, "note: run %llu: worker reported %s, fresh process reproduces as %s\n", (unsigned long long)v.index, kv.first.c_str(), r1.v.sig.c_str()); sigUsed = r1.v.sig; }
            if (r1.v.ok || r2.v.ok || r1.v.sig != sigUsed || r2.v.sig != sigUsed || r1.v.loghash != r2.v.loghash) {
                fprintf(stderr, "GATE FAILED: run %llu variant %u sig %s does not reproduce identically (r1 ok=%d sig=%s lh=%llu; r2 ok=%d sig=%s lh=%llu)\n", (unsigned long long)v.index, v.variant, kv.first.c_str(), r1.v.ok, r1.v.sig.c_str(), (unsigned long long)r1.v.loghash, r2.v.ok, r2.v.sig.c_str(), (unsigned long long)r2.v.loghash);
                machinery++; continue;
            }
            sigFinal = sigUsed; opsBefore = bad.ops.size(); Plan mini = minimise(*sc, bad, sigUsed, evals); opsAfter = mini.ops.size();
            EvalResult rm = eval_child(*sc, mini, false); detail = rm.v.detail;
            Hash h; h.str(sigUsed); char name[256]; snprintf(name, sizeof name, "%s/replays/%s-%s-%08llx-%llu.json", outdir.c_str(), sc->property.c_str(), BUILD, (unsigned long long)(h.h & 0xffffffff), (unsigned long long)v.index);
            replayPath = name; write_file(replayPath, plan_json(mini));
            // fresh-process replay gate
            fflush(stdout); pid_t pid = fork();
            if (pid == 0) { int dn = open("/dev/null", O_WRONLY); dup2(dn, 1); dup2(dn, 2); execl(g_self.c_str(), "cosim", "replay", replayPath.c_str(), (char *)0); _exit(99); }
            int st = 0; waitpid(pid, &st, 0); bool reproduced = (WIFEXITED(st) && (WEXITSTATUS(st) == 1 || WEXITSTATUS(st) == 77 || WEXITSTATUS(st) == 78 || WEXITSTATUS(st) == 79)) || WIFSIGNALED(st);
            if (!reproduced) { fprintf(stderr, "GATE FAILED: minimised replay %s does not reproduce in a fresh process (status %d)\n", replayPath.c_str(), st); machinery++; continue; }
        }
        for (auto &k : kn) if (k.property == sc->property && (k.sig == sigFinal || k.sig == kv.first)) { isKnown = true; ktext = k.text; }
        if (isKnown) { knownViol++; printf("KNOWN-FINDING: property=%s %s [sig=%s runs=%d replay=%s]\n", sc->property.c_str(), ktext.c_str(), sigFinal.c_str(), countOf[kv.first], replayPath.c_str()); }
        else { unknownViol++; printf("VIOLATION property=%s replay=%s\n  sig=%s build=%s run=%llu variant=%u occurrences=%d ops %zu->%zu (%d candidates)\n  %s\n", sc->property.c_str(), replayPath.c_str(), sigFinal.c_str(), BUILD, (unsigned long long)v.index, v.variant, countOf[kv.first], opsBefore, opsAfter, evals, detail.c_str()); }
        if (!violJson.empty()) violJson += ",";
        violJson += "{\"sig\":\"" + jesc(sigFinal) + "\",\"known\":" + (isKnown ? "true" : "false") + ",\"count\":" + std::to_string(countOf[kv.first]) + ",\"replay\":\"" + jesc(replayPath) + "\",\"detail\":\"" + jesc(detail.substr(0, 600)) + "\"}";
    }
    if (gaveUp) fprintf(stderr, "search stopped early: more than 40 crashing runs\n");
    double wall = now_s() - t0;
    if (!trace.empty()) { std::string t; for (auto &l : traceLines) t += l; write_file(trace, t); }
    // ---- result file
    if (!out.empty()) {
        std::string s = "{\"scenario\":\"" + sc->name + "\",\"property\":\"" + sc->property + "\",\"build\":\"" + BUILD + "\",\"seed\":" + std::to_string(seed) + ",\"runs\":" + std::to_string(runs) + ",\"evaluations\":" + std::to_string(evaluations) +
                        ",\"wall_s\":" + std::to_string(wall) + ",\"search_s\":" + std::to_string(tSearch) + ",\"machinery_errors\":" + std::to_string(machinery) + ",\"unknown_violations\":" + std::to_string(unknownViol) + ",\"known_violations\":" + std::to_string(knownViol) +
                        ",\"violations\":[" + violJson + "],\n\"cov\":{\"runs\":" + std::to_string(total.runs) + ",\"nontrivial\":" + std::to_string(total.nontrivial) + ",\"ops\":" + std::to_string(total.ops) + ",\"frames_in\":" + std::to_string(total.frames_in) + ",\"frames_out\":" + std::to_string(total.frames_out) +
                        ",\"sim_seconds\":" + std::to_string(total.sim_seconds) + ",\"states\":" + std::to_string(total.states.size()) + ",\"pairs\":" + std::to_string(total.pairs.size()) + ",\"traces\":" + std::to_string(total.traces.size()) + ",\"counters\":{";
        bool f = true; for (auto &kv : total.cnt) { if (!f) s += ","; f = false; s += "\"" + jesc(kv.first) + "\":" + std::to_string(kv.second); }
        s += "}},\n\"samples\":[";
        for (uint64_t i = 0; i < std::min<uint64_t>(3, runs); i++) { if (i) s += ",\n"; s += sample_json(plan_for(*sc, seed, first + i, thorough)); }
        s += "]}\n"; write_file(out, s);
    }
    // cleanup tmp
    { std::string cmd = "rm -rf '" + g_tmpdir + "'"; (void)!system(cmd.c_str()); }
    fprintf(stderr, "[%s build %s] runs=%llu evaluations=%llu wall=%.1fs states=%zu traces=%zu violations: unknown=%d known=%d machinery=%d\n", sc->name.c_str(), BUILD, (unsigned long long)runs, (unsigned long long)evaluations, wall, total.states.size(), total.traces.size(), unknownViol, knownViol, machinery);
    if (machinery) return 2;
    return unknownViol ? 1 : 0;
}

static int cmd_gen(int argc, char **argv) {
    if (argc < 5) return 2; Scenario *sc = find_scn(argv[2]); if (!sc) return 2;
    bool thorough = argc > 5 && !strcmp(argv[5], "thorough");
    Plan p = plan_for(*sc, strtoull(argv[3], 0, 10), strtoull(argv[4], 0, 10), thorough); fputs(plan_json(p).c_str(), stdout); return 0;
}

int main(int argc, char **argv) {
    if (argc < 2) { fprintf(stderr, "usage: cosim list | run <scenario> [--seed S --runs N --jobs J --tier T --out F] | replay <file> [--verbose] | gen <scenario> <seed> <index>\n"); return 2; }
    std::string c = argv[1];
    { char self[4096]; ssize_t n = readlink("/proc/self/exe", self, sizeof self - 1); if (n > 0) { self[n] = 0; g_self = self; } }   // valgrind emulates the readlink, not the exec
    if (c == "list") { for (auto &s : registry()) printf("%s %s\n", s.property.c_str(), s.name.c_str()); return 0; }
    if (c == "replay") return cmd_replay(argc, argv);
    if (c == "run") return cmd_run(argc, argv);
    if (c == "gen") return cmd_gen(argc, argv);
    return 2;
}
