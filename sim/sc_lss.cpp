// C18 (lss): LSS slave against the CiA 305 state machine.
#include "node_env.hpp"

namespace sim {
namespace {

enum { M_INVALID = 0, M_INIT = 1, M_PREOP = 2, M_OP = 3, M_STOP = 4 };
static const uint32_t BAUD[10] = {1000000, 800000, 500000, 250000, 125000, 0, 50000, 20000, 10000, 0};

struct LssRun : NodeEnv {
    int m = M_PREOP; bool conf = false; uint32_t ident[4]; uint8_t activeId = 1; uint32_t activeBaud = 250000;
    int selStrict = 0, selLoose = 0, idStrict = 0, idLoose = 0;      // progress of the selective / identify sequences
    uint8_t cfgNode = 0; uint32_t cfgBaud = 0; bool stored = false; uint8_t stNode = 0; uint32_t stBaud = 0; bool dead = false, nmtUnknown = false;   // dead: LSS state unknown (reserved switch-global mode); nmtUnknown: after activate bit timing the NMT side is not followed
    std::vector<ObjSpec> baseSpecs;
    LssRun(const Plan &p, Cov &c, bool vb) : NodeEnv(p, c, vb) {}
    void buildNode() {
        specs.clear(); add_u32(specs, 0x1000, 0, CO_OBJ_D___R_, 0x191); add_u8(specs, 0x1001, 0, CO_OBJ_____R_, 0);
        add_u8(specs, 0x1018, 0, CO_OBJ_D___R_, 4); for (int i = 0; i < 4; i++) add_u32(specs, 0x1018, (uint8_t)(i + 1), (uint8_t)(i & 1 ? CO_OBJ_D___R_ : CO_OBJ_____R_), ident[i]);
        add_u8(specs, 0x1200, 0, CO_OBJ_D___R_, 2); add_typed(specs, T_SDOID, 0x1200, 1, CO_OBJ_DN__R_, 0x600); add_typed(specs, T_SDOID, 0x1200, 2, CO_OBJ_DN__R_, 0x580);
        add_typed(specs, T_HBPROD, 0x1017, 0, CO_OBJ_____RW, 0);
        NodeCfg cfg; cfg.nodeId = (uint8_t)plan.c("nodeid", 1); cfg.baud = 250000; cfg.freq = 1000; cfg.tmrNum = 4;
        w.build(0, cfg, specs); S().lssLoadViaApi = plan.c("loadviaapi", 0) != 0; if (S().lssLoadViaApi) cov.hit("lss-load-callback-uses-the-api");
    }
    void boot(const char *what) {
        size_t mk = w.mark(); w.init(0); w.start(0); conf = false; activeId = (uint8_t)plan.c("nodeid", 1); activeBaud = 250000; selStrict = selLoose = idStrict = idLoose = 0; cfgNode = 0; cfgBaud = 0; m = M_PREOP;
        if (stored && stNode >= 1 && stNode <= 127) activeId = stNode; if (stored && stBaud) activeBaud = stBaud;
        checkBoot(mk, what);
    }
    void checkBoot(size_t mk, const char *what) {
        int boots = 0; for (size_t i = mk; i < w.evs.size(); i++) if (w.evs[i].kind == EV_TX) { const Frame &f = w.evs[i].f; if (f.dlc == 1 && f.d[0] == 0 && f.id >= 0x700 && f.id <= 0x7FF) { boots++; if (f.id != 0x700u + activeId) fail("lss/bootup-id", "boot-up frame on " + hex(f.id) + " after " + what + ", active node id should be " + std::to_string(activeId)); } }
        if (boots != 1 && v.ok) fail("lss/bootup-count", std::to_string(boots) + " boot-up frames after " + what);
        if (v.ok && N()->NodeId != activeId) fail("lss/node-id", "node id " + std::to_string(N()->NodeId) + " after " + what + ", expected " + std::to_string(activeId));
        if (v.ok && N()->Baudrate != activeBaud) fail("lss/baudrate", "bit rate " + std::to_string(N()->Baudrate) + " after " + what + ", expected " + std::to_string(activeBaud));
        // the SDO server answers on the new identifiers
        if (v.ok) { nodeId = activeId; Fx fx = deliver(Frame(0x600u + activeId, 8, {0x40, 0x00, 0x10, 0, 0, 0, 0, 0})); if (fx.tx.size() != 1 || fx.tx[0].id != 0x580u + activeId || fx.tx[0].d[0] != 0x43) fail("lss/sdo-after-reset", "SDO server does not answer on 600h+" + std::to_string(activeId) + " after " + what); }
    }
    void setup() {
        static const uint32_t IDV[] = {0, 1, 2, 0x7FFFFFFF, 0x80000000u, 0xFFFFFFFEu, 0xFFFFFFFFu, 0x12345678};
        for (int i = 0; i < 4; i++) ident[i] = IDV[(size_t)plan.c("id" + std::to_string(i), 7) % 8] + (uint32_t)(i == 0 ? 0 : 0);
        activeId = (uint8_t)plan.c("nodeid", 1); buildNode(); boot("power-up");
    }
    void lssFrame(const Op &o) {
        uint8_t cs = (uint8_t)o.arg(0); Frame f(0x7E5, 8, o.b); f.d[0] = cs; uint32_t arg = f.u32(1);
        bool wasConf = conf; std::vector<uint8_t> img = w.image(0);
        if (o.arg(1, 0)) { S().sendFail = 1; S().sendFailRet = o.arg(1) == 1 ? -1 : 0; cov.hit(o.arg(1) == 1 ? "F5-answer-refused-with-error" : "F5-answer-refused-with-zero"); }   // F5: the CAN driver refuses the answer (error, or 'nothing sent'): the attempt is the answer, everything else as usual
        size_t mk = w.mark(); Fx fx = deliver(f); S().sendFail = 0; S().sendFailRet = -1;
        if (fx.appRx) { fail("lss/app-callback", "LSS frame handed to the application callback"); return; }
        for (auto &e : fx.evs) if (e.kind == EV_PDORECEIVE || e.kind == EV_HBCHANGE || e.kind == EV_RESETREQ) { fail("lss/other-service", "LSS frame reached another service"); return; }
        for (auto &t : fx.tx) if (t.id != 0x7E4) { fail("lss/foreign-tx", "LSS request answered on " + hex(t.id)); return; }
        if (w.image(0) != img) { fail("lss/dictionary-changed", "an LSS request changed the object dictionary"); return; }
        if (dead) return;
        // ---- expected response
        bool expResp = false; uint8_t e0 = cs; int chk = 0; uint8_t e[8] = {0}; bool selMay = false, selMust = false, idMay = false, idMust = false; int stores = 0;
        for (auto &ev : fx.evs) if (ev.kind == EV_LSSSTORE) stores++;
        bool selCmd = cs >= 64 && cs <= 67, idCmd = cs >= 70 && cs <= 75;
        if (!selCmd) selStrict = 0; if (!idCmd) idStrict = 0;
        if (cs == 4) { if (f.d[1] == 1) conf = true; else if (f.d[1] == 0) conf = false; else { dead = true; cov.hit("switch-global-reserved-mode"); return; } cov.hit(conf ? "switch-global-conf" : "switch-global-wait"); }
        else if (selCmd) {
            if (!wasConf) { int part = cs - 64; bool match = arg == ident[part];
                auto step = [&](int &st, bool loose) -> bool { if (part == 0) { st = match ? 1 : 0; return false; } if (st == part && match) { st = part + 1; if (st == 4) { st = 0; return true; } return false; } if (loose && st == part) return false; /* a non-matching value of the expected part may leave the sequence open */ st = 0; return false; };
                selMust = step(selStrict, false); selMay = step(selLoose, true); if (selMust) selMay = true;
                cov.hit(match ? "selective-part-match" : "selective-part-mismatch"); }
            else cov.hit("selective-in-configuration-state");
        }
        else if (idCmd) { int part = cs - 70; bool ok2 = part == 0 ? arg == ident[0] : part == 1 ? arg == ident[1] : part == 2 ? arg <= ident[2] : part == 3 ? arg >= ident[2] : part == 4 ? arg <= ident[3] : arg >= ident[3];
            auto step = [&](int &st, bool loose) -> bool { if (part == 0) { st = ok2 ? 1 : 0; return false; } if (st == part && ok2) { st = part + 1; if (st == 6) { st = 0; return true; } return false; } if (loose && st == part) return false; st = 0; return false; };
            idMust = step(idStrict, false); idMay = step(idLoose, true); if (idMust) idMay = true; cov.hit(ok2 ? "identify-part-in-range" : "identify-part-out-of-range"); }
        else if (cs == 76) { dead = false; /* identify non-configured: not constrained */ if (fx.tx.size() > 1) fail("lss/response-count", "more than one answer"); return; }
        else if (wasConf && cs == 17) { expResp = true; uint8_t nid = f.d[1]; bool ok2 = (nid >= 1 && nid <= 127) || nid == 255; e[1] = ok2 ? 0 : 1; chk = 2; if (ok2) cfgNode = nid; cov.hit(ok2 ? "configure-node-id-ok" : "configure-node-id-refused"); }
        else if (wasConf && cs == 19) { expResp = true; bool ok2 = f.d[1] == 0 && f.d[2] < 10 && BAUD[f.d[2]] != 0; e[1] = ok2 ? 0 : 1; chk = 2; if (ok2) cfgBaud = BAUD[f.d[2]]; cov.hit(ok2 ? "configure-bit-timing-ok" : "configure-bit-timing-refused"); }
        else if (wasConf && cs == 23) { expResp = true; bool failS = false; for (auto &ev : fx.evs) if (ev.kind == EV_LSSSTORE) { failS = ev.c != 0; if ((uint32_t)ev.a != cfgBaud || (uint8_t)ev.b != cfgNode) { fail("lss/store-arguments", "COLssStore(" + std::to_string(ev.a) + ", " + std::to_string(ev.b) + "), configured " + std::to_string(cfgBaud) + ", " + std::to_string(cfgNode)); return; } }
            if (stores != 1) { fail("lss/store-callback-count", "store callback invoked " + std::to_string(stores) + " times"); return; } e[1] = failS ? 2 : 0; chk = 2; if (!failS) { stored = true; stNode = cfgNode; stBaud = cfgBaud; } cov.hit(failS ? "store-failed" : "store-ok"); }
        else if (wasConf && cs >= 90 && cs <= 93) { expResp = true; uint32_t val = ident[cs - 90]; e[1] = (uint8_t)val; e[2] = (uint8_t)(val >> 8); e[3] = (uint8_t)(val >> 16); e[4] = (uint8_t)(val >> 24); chk = 5; cov.hit("inquire-identity"); }
        else if (wasConf && cs == 94) { expResp = true; e[1] = activeId; chk = 2; cov.hit("inquire-node-id"); }
        else if (wasConf && cs == 21) { nmtUnknown = true; cov.hit("activate-bit-timing"); if (!fx.tx.empty()) fail("lss/activate-response", "activate bit timing was answered"); return; }
        else { cov.hit(wasConf ? "unknown-command" : "service-in-waiting-state"); }
        if (cs != 23 && stores) { fail("lss/store-callback-count", "store callback invoked by command " + std::to_string(cs)); return; }
        // ---- compare
        std::string ctx = " [cs " + std::to_string(cs) + " arg " + hex(arg) + " in " + (wasConf ? "configuration" : "waiting") + " state]";
        if (selCmd || idCmd) {
            bool must = selCmd ? selMust : idMust, may = selCmd ? selMay : idMay; uint8_t rc = selCmd ? 68 : 79;
            if (fx.tx.size() > 1) { fail("lss/response-count", std::to_string(fx.tx.size()) + " answers" + ctx); return; }
            bool answered = fx.tx.size() == 1;
            if (answered && fx.tx[0].d[0] != rc) { fail("lss/response-cs", "answer " + fx.tx[0].str() + ctx); return; }
            if (answered && !may) { fail(selCmd ? "lss/selective-without-complete-address" : "lss/identify-outside-range", std::string(selCmd ? "switch state selective" : "identify remote slave") + " answered although the address parts did not all arrive in order and match" + ctx); return; }
            if (!answered && must) { fail(selCmd ? "lss/selective-not-answered" : "lss/identify-not-answered", "complete matching sequence not answered" + ctx); return; }
            if (selCmd && answered) { conf = true; selStrict = selLoose = 0; cov.hit("selective-success"); nontrivial = true; }
            if (idCmd && answered) { idStrict = idLoose = 0; cov.hit("identify-success"); nontrivial = true; }
            if (!answered && may && !must) { if (selCmd) selLoose = 0; else idLoose = 0; }
            return;
        }
        if (!expResp) { if (!fx.tx.empty()) fail(wasConf ? "lss/unexpected-response" : "lss/service-in-waiting-state-answered", "answer " + fx.tx[0].str() + ctx); return; }
        if (fx.tx.size() != 1) { fail("lss/response-count", std::to_string(fx.tx.size()) + " answers" + ctx); return; }
        const Frame &r = fx.tx[0]; if (r.d[0] != e0) { fail("lss/response-cs", "answer " + r.str() + ctx); return; }
        for (int i = 1; i < chk; i++) if (r.d[i] != e[i]) { fail(cs == 17 || cs == 19 || cs == 23 ? "lss/error-code" : "lss/response-data", "answer " + r.str() + ", expected byte " + std::to_string(i) + " = " + hex(e[i]) + ctx); return; }
        (void)mk;
    }
    void op(const Op &o) {
        const std::string &k = o.k;
        if (k == "lss") lssFrame(o);
        else if (k == "setident") {   // the application sets part of the identity through the API after start-up (serial number read from hardware, ...): LSS must use the object, not a copy
            if (dead) return; int part = (int)(o.arg(0) % 4); uint32_t val = (uint32_t)o.arg(1); w.cur = 0; CO_ERR e = CODictWrLong(&N()->Dict, CO_DEV(0x1018, (uint8_t)(part + 1)), val); if (e == CO_ERR_NONE) { ident[part] = val; selStrict = idStrict = 0; /* parts that matched before the change did match when they arrived: a sequence in progress may or may not complete */ cov.hit("identity-set-through-api"); nontrivial = true; } }
        else if (k == "storefail") { S().lssStoreFail = (int)o.arg(0); }
        else if (k == "nmt") {
            uint8_t cs = (uint8_t)o.arg(0); if (nmtUnknown || (dead && cs != 129 && cs != 130)) return; dead = false; 
            if (stored && stNode == 255 && (cs == 129 || cs == 130)) {   // the stored 'unconfigured' id 255 becomes active: what such a node sends is not constrained, but it must have given up the old id
                uint8_t oldId = activeId; size_t mk = w.mark(); deliver(Frame(0, 2, {cs, 0})); m = M_PREOP; conf = false; selStrict = selLoose = idStrict = idLoose = 0; cfgNode = 0; cfgBaud = 0; if (stBaud) activeBaud = stBaud;
                if (oldId != 255) for (size_t i = mk; i < w.evs.size(); i++) if (w.evs[i].kind == EV_TX && w.evs[i].f.id == 0x700u + oldId) { fail("lss/bootup-on-old-id", "frame on " + hex(w.evs[i].f.id) + " after a reset that activates the stored node id 255"); return; }
                activeId = 255; nodeId = 255; if (N()->NodeId != 255) { fail("lss/node-id", "node id " + std::to_string(N()->NodeId) + " after NMT reset, the stored configuration says 255"); return; }
                if (N()->Baudrate != activeBaud) { fail("lss/baudrate", "bit rate " + std::to_string(N()->Baudrate) + " after NMT reset, expected " + std::to_string(activeBaud)); return; }
                cov.hit("reset-activates-node-id-255"); nontrivial = true; safety(); return;
            }
            size_t mk = w.mark(); deliver(Frame(0, 2, {cs, 0}));
            if (cs == 1) m = M_OP; else if (cs == 2) m = M_STOP; else if (cs == 128) m = M_PREOP;
            else if (cs == 129 || cs == 130) { m = M_PREOP; conf = false; selStrict = selLoose = idStrict = idLoose = 0; cfgNode = 0; cfgBaud = 0; bool changed = false; if (stored && stNode >= 1 && stNode <= 127 && stNode != activeId) { activeId = stNode; changed = true; } if (stored && stBaud) activeBaud = stBaud; checkBoot(mk, "NMT reset"); cov.hit(changed ? "reset-activates-new-node-id" : "reset"); if (changed) nontrivial = true; }
        }
        else if (k == "powercycle") { if (stored && stNode == 255) return; dead = false; nmtUnknown = false; buildNode(); cov.hit("F10-power-cycle"); boot("power cycle"); }
        safety();
    }
    Verdict run() {
        setup();
        for (opi = 0; opi < (int)plan.ops.size() && v.ok; opi++) {
            const Op &o = plan.ops[(size_t)opi]; w.opIndex = (uint32_t)opi; cov.ops++;
            op(o);
            Hash h; h.str(o.k); h.u64(conf); h.u64((uint64_t)selLoose); h.u64((uint64_t)idLoose); h.u64(cfgNode != 0); h.u64(stored); h.u64((uint64_t)m); if (o.k == "lss") h.u64((uint64_t)o.arg(0)); cov.pairs.insert(h.h); trace.u64(h.h); Hash s2; s2.u64(conf); s2.u64((uint64_t)selLoose); s2.u64((uint64_t)idLoose); s2.u64(stored); s2.u64((uint64_t)m); cov.states.insert(s2.h);
        }
        finish(); return v;
    }
};

Plan gen_lss(Rng &r, bool thorough) {
    Plan p; for (int i = 0; i < 4; i++) p.cfg["id" + std::to_string(i)] = r.below(8); p.cfg["nodeid"] = r.pick<int64_t>({1, 2, 64, 127}); p.cfg["loadviaapi"] = r.chance(1, 4);
    static const uint32_t IDV[] = {0, 1, 2, 0x7FFFFFFF, 0x80000000u, 0xFFFFFFFEu, 0xFFFFFFFFu, 0x12345678};
    uint32_t curId[4]; for (int i = 0; i < 4; i++) curId[i] = IDV[(size_t)p.cfg["id" + std::to_string(i)] % 8];   // the generator follows identity changes made through the API
    auto ident = [&](int part) { return curId[part]; };
    auto argOf = [&](int part) -> uint32_t { uint32_t v = ident(part); int c = (int)r.below(10); return c < 6 ? v : c == 6 ? v + 1 : c == 7 ? v - 1 : c == 8 ? r.pick<uint32_t>({0, 0xFFFFFFFFu, 0x12345678}) : (uint32_t)r.next(); };
    auto frame = [&](uint8_t cs, uint32_t a, uint8_t b5 = 0) { std::vector<uint8_t> b = {cs, (uint8_t)a, (uint8_t)(a >> 8), (uint8_t)(a >> 16), (uint8_t)(a >> 24), b5, 0, 0}; return Op("lss", {cs, r.chance(1, 12) ? (int64_t)r.range(1, 2) : 0}, b); };
    int n = (int)r.range(3, thorough ? 50 : 25);
    for (int i = 0; i < n; i++) {
        int c = (int)r.below(24);
        if (c < 3) p.ops.push_back(frame(4, r.below(2)));
        else if (c < 7) { // a selective sequence: complete / permuted / with repeats / interrupted
            int kind = (int)r.below(6); std::vector<int> parts = {0, 1, 2, 3};
            if (kind == 1) std::swap(parts[r.below(4)], parts[r.below(4)]); else if (kind == 2) parts.insert(parts.begin() + r.below(4), (int)r.below(4)); else if (kind == 3) parts.erase(parts.begin() + r.below(4)); else if (kind == 4) parts = {(int)r.below(4)};
            for (size_t q = 0; q < parts.size(); q++) { uint32_t a = kind == 5 && r.chance(1, 3) ? argOf(parts[q]) : r.chance(9, 10) ? ident(parts[q]) : argOf(parts[q]); p.ops.push_back(frame((uint8_t)(64 + parts[q]), a)); if (r.chance(1, 12)) p.ops.push_back(frame(r.pick<uint8_t>({94, 70, 4, 76, 200}), r.below(2))); }
        }
        else if (c < 10) { // identify remote slave with ranges tight / loose / inverted
            int kind = (int)r.below(5); uint32_t rv = ident(2), sn = ident(3);
            uint32_t a[6] = {ident(0), ident(1), rv, rv, sn, sn};
            if (kind == 1) { a[2] = rv > 5 ? rv - 5 : 0; a[3] = rv < 0xFFFFFFF0u ? rv + 5 : 0xFFFFFFFFu; a[4] = 0; a[5] = 0xFFFFFFFFu; } else if (kind == 2) { a[2] = rv + 1; } else if (kind == 3) { a[5] = sn - 1; } else if (kind == 4) { a[r.below(6)] = argOf((int)r.below(4)); }
            for (int q = 0; q < 6; q++) { p.ops.push_back(frame((uint8_t)(70 + q), a[q])); if (r.chance(1, 20)) p.ops.push_back(frame(r.pick<uint8_t>({64, 94, 4}), r.below(2))); }
        }
        else if (c < 13) p.ops.push_back(frame(17, r.pick<uint32_t>({0, 1, 5, 127, 128, 254, 255, 64})));
        else if (c < 15) p.ops.push_back(frame(19, (uint32_t)(r.chance(4, 5) ? 0 : 1) | (uint32_t)r.below(12) << 8));
        else if (c < 17 && r.chance(1, 4)) { int part = (int)r.below(4); uint32_t nv = r.chance(1, 2) ? IDV[r.below(8)] : (uint32_t)r.next(); p.ops.push_back(Op("setident", {part, (int64_t)nv})); curId[part] = nv; }
        else if (c < 17) { if (r.chance(1, 5)) p.ops.push_back(Op("storefail", {1})); p.ops.push_back(frame(23, 0)); }
        else if (c < 19) p.ops.push_back(frame((uint8_t)r.range(90, 94), 0));
        else if (c == 19) p.ops.push_back(frame(r.pick<uint8_t>({0, 1, 5, 16, 18, 20, 22, 63, 68, 69, 77, 79, 89, 95, 255}), (uint32_t)r.next()));
        else if (c < 22) p.ops.push_back(Op("nmt", {r.pick<int64_t>({130, 130, 129, 1, 2, 128})}));
        else if (c == 22) p.ops.push_back(Op("powercycle"));
        else if (r.chance(1, 3)) { p.ops.push_back(frame(21, 10)); p.ops.push_back(frame(4, 0)); for (int q = 1; q < 4; q++) p.ops.push_back(frame((uint8_t)(64 + q), ident(q))); p.ops.push_back(Op("powercycle")); }
        else p.ops.push_back(frame(4, 1));
    }
    return p;
}
Reg r18({"lss", "C18", gen_lss, [](const Plan &p, Cov &c, bool vb) { LssRun x(p, c, vb); return x.run(); }, nullptr, nullptr});

} // namespace
} // namespace sim
