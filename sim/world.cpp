#include "world.hpp"
#ifdef COSIM_VALGRIND
#include <valgrind/memcheck.h>
#endif

namespace sim {

World *W = nullptr;
std::vector<Scenario> &registry() { static std::vector<Scenario> r; return r; }

World::World() { W = this; }
World::~World() { for (int i = 0; i < 2; i++) teardown(i); if (W == this) W = nullptr; }

void World::ev(EvKind k, int64_t a, int64_t b, int64_t c, const Frame *f) {
    Ev e; e.kind = k; e.slot = (uint8_t)cur; e.tick = s[cur].now; e.op = opIndex; e.a = a; e.b = b; e.c = c; if (f) e.f = *f;
    log.u8(k); log.u8((uint8_t)cur); log.u64(e.tick); log.u64((uint64_t)a); log.u64((uint64_t)b); log.u64((uint64_t)c);
    if (f) { log.u64(f->id); log.u8(f->dlc); log.bytes(f->d, 8); }
    if (verbose) {
        static const char *nm[] = {"?", "TX", "TXFAIL", "FATAL", "MODECHANGE", "RESETREQ", "HBEVENT", "HBCHANGE", "LSSLOAD", "LSSSTORE", "CANRECEIVE", "PDOTRANSMIT",
                                   "PDORECEIVE", "SYNCUPDATE", "PARADEFAULT", "RPDOWRDATA", "TPDORDDATA", "TMRCB", "CSDODONE", "NVMW", "NVMR", "CANINIT", "CANENABLE", "CANRESET", "CANCLOSE", "NOTE"};
        char buf[200]; snprintf(buf, sizeof buf, "  [op %u slot %d t=%llu] %s a=%lld b=%lld c=%lld %s\n", opIndex, cur, (unsigned long long)e.tick, nm[k], (long long)a, (long long)b, (long long)c, f ? f->str().c_str() : "");
        text += buf;
    }
    evs.push_back(e);
}

// ------------------------------------------------------------------ drivers
static void can_init(void) { W->ev(EV_CANINIT); }
static void can_enable(uint32_t baud) { W->S().canOpen = true; W->ev(EV_CANENABLE, baud); }
static int16_t can_read(CO_IF_FRM *frm) {
    Slot &s = W->S();
    if (s.readErr > 0) { s.readErr--; return -1; }
    if (s.rx.empty()) return 0;
    if (s.readEmpty > 0) { s.readEmpty--; return 0; }
    Frame f = s.rx.front(); s.rx.pop_front();
    frm->Identifier = f.id; frm->DLC = f.dlc; memcpy(frm->Data, f.d, 8);
    return (int16_t)sizeof(CO_IF_FRM);
}
static int16_t can_send(CO_IF_FRM *frm) {
    Slot &s = W->S();
    Frame f; f.id = frm->Identifier; f.dlc = frm->DLC;
    int n = f.dlc > 8 ? 8 : f.dlc;
    memcpy(f.d, frm->Data, (size_t)n);      // bytes beyond DLC are not on the bus (and may be uninitialised)
    s.txInOp++;
    if (s.sendFail > 0) { s.sendFail--; W->ev(EV_TXFAIL, 0, 0, 0, &f); return (int16_t)s.sendFailRet; }
    if (s.sendFailAfter >= 0) { if (s.sendFailAfter-- == 0) { W->ev(EV_TXFAIL, 0, 0, 0, &f); return (int16_t)s.sendFailRet; } }
    W->ev(EV_TX, 0, 0, 0, &f);
    return (int16_t)sizeof(CO_IF_FRM);
}
static void can_reset(void) { W->ev(EV_CANRESET); }
static void can_close(void) { W->S().canOpen = false; W->ev(EV_CANCLOSE); }
static const CO_IF_CAN_DRV canDrv = {can_init, can_enable, can_read, can_send, can_reset, can_close};

static void tmr_init(uint32_t) { W->S().counter = 0; }
static void tmr_reload(uint32_t n) { W->S().counter = n; }
static uint32_t tmr_delay(void) { return W->S().counter; }
static void tmr_stop(void) { W->S().counter = 0; }
static void tmr_start(void) {}
static uint8_t tmr_update(void) {
    Slot &s = W->S();
    if (s.counter > 0) { s.counter--; if (s.counter == 0) return 1; }
    return 0;
}
static const CO_IF_TIMER_DRV tmrDrv = {tmr_init, tmr_reload, tmr_delay, tmr_stop, tmr_start, tmr_update};

static void nvm_init(void) {}
static uint32_t nvm_read(uint32_t start, uint8_t *buf, uint32_t size) {
    Slot &s = W->S(); int64_t k = (int64_t)s.nvmReads++;
    uint32_t n = size; if (start >= s.nvm.size()) n = 0; else if (start + (uint64_t)n > s.nvm.size()) n = (uint32_t)(s.nvm.size() - start);
    if (k == s.nvmReadFaultAt && s.nvmReadShort < n) n = s.nvmReadShort;
    if (n) memcpy(buf, &s.nvm[start], n);
    W->ev(EV_NVMR, start, size, n);
    return n;
}
static uint32_t nvm_write(uint32_t start, uint8_t *buf, uint32_t size) {
    Slot &s = W->S(); int64_t k = (int64_t)s.nvmWrites++;
    uint32_t n = size; if (start >= s.nvm.size()) n = 0; else if (start + (uint64_t)n > s.nvm.size()) n = (uint32_t)(s.nvm.size() - start);
    if (k == s.nvmWriteFaultAt && s.nvmWriteShort < n) n = s.nvmWriteShort;
    if (n) memcpy(&s.nvm[start], buf, n);
    W->ev(EV_NVMW, start, size, n);
    return n;
}
static const CO_IF_NVM_DRV nvmDrv = {nvm_init, nvm_read, nvm_write};

// ------------------------------------------------------------------ user object type
extern "C" {
static uint32_t user_size(CO_OBJ *, CO_NODE *, uint32_t) { return 4; }
// user type: Data >= 0x01000000 = refuse with this application abort code; smaller = refuse by returning this CO_ERR value, no application code
static CO_ERR user_read(CO_OBJ *obj, CO_NODE *node, void *, uint32_t) { uint32_t v = (uint32_t)obj->Data; if (v >> 24) { COObjTypeUserSDOAbort(obj, node, v); return CO_ERR_TYPE_RD; } return CO_ERR_TYPE_RD; }
static CO_ERR user_write(CO_OBJ *obj, CO_NODE *node, void *, uint32_t) { uint32_t v = (uint32_t)obj->Data; if (v >> 24) { COObjTypeUserSDOAbort(obj, node, v); return CO_ERR_TYPE_WR; } return v == 0xFFFFu ? CO_ERR_TYPE_WR : (CO_ERR)v; }
// Data == 0xFFFF: a type that refuses to be rewound (Reset fails), like the parameter store entries do for sub-indices > 0
static CO_ERR user_reset(CO_OBJ *obj, CO_NODE *, uint32_t) { return (uint32_t)obj->Data == 0xFFFFu ? CO_ERR_TYPE_RESET : CO_ERR_NONE; }
const CO_OBJ_TYPE COTVerifUser = {user_size, 0, user_read, user_write, user_reset};
// application-defined type with active callbacks (see world.hpp, T_APP)
static uint32_t app_size(CO_OBJ *, CO_NODE *, uint32_t) { return 4; }
static bool app_sibling_ok(CO_OBJ *obj, CO_NODE *node) { uint8_t x = 0; return CODictRdByte(&node->Dict, CO_DEV(CO_GET_IDX(obj->Key), CO_GET_SUB(obj->Key) + 1), &x) == CO_ERR_NONE; }
static CO_ERR app_read(CO_OBJ *obj, CO_NODE *node, void *buf, uint32_t len) { AppObj *a = (AppObj *)obj->Data; if ((a->beh & APP_NESTED_READ) && !app_sibling_ok(obj, node)) return CO_ERR_TYPE_RD; memcpy(buf, a->val, len < 4 ? len : 4); return CO_ERR_NONE; }
static CO_ERR app_write(CO_OBJ *obj, CO_NODE *node, void *buf, uint32_t len) { AppObj *a = (AppObj *)obj->Data; if ((a->beh & APP_NESTED_READ) && !app_sibling_ok(obj, node)) return CO_ERR_TYPE_WR; memcpy(a->val, buf, len < 4 ? len : 4);
    if (a->beh & APP_MODE_STOP) CONmtSetMode(&node->Nmt, CO_STOP);
    if (a->beh & APP_LOCK_SDO) { uint32_t id = 0; if (CODictRdLong(&node->Dict, CO_DEV(0x1200, 1), &id) == CO_ERR_NONE) (void)CODictWrLong(&node->Dict, CO_DEV(0x1200, 1), id | 0x80000000u); }
    return CO_ERR_NONE; }
const CO_OBJ_TYPE COTVerifApp = {app_size, 0, app_read, app_write, 0};
}

// ------------------------------------------------------------------ build / teardown
static void *zalloc(Slot &s, size_t n) { void *p = malloc(n ? n : 1); memset(p, 0, n ? n : 1); s.allocs.push_back(p); return p; }

static const CO_OBJ_TYPE *type_of(OT t) {
    switch (t) {
    case T_U8: return CO_TUNSIGNED8; case T_U16: return CO_TUNSIGNED16; case T_U32: return CO_TUNSIGNED32;
    case T_DOMAIN: return CO_TDOMAIN; case T_STRING: return CO_TSTRING; case T_HBPROD: return CO_THB_PROD; case T_HBCONS: return CO_THB_CONS;
    case T_SYNCID: return CO_TSYNC_ID; case T_SYNCCYCLE: return CO_TSYNC_CYCLE; case T_EMCYID: return CO_TEMCY_ID; case T_EMCYHIST: return CO_TEMCY_HIST;
    case T_SDOID: return CO_TSDO_ID; case T_PDOID: return CO_TPDO_ID; case T_PDOTYPE: return CO_TPDO_TYPE; case T_PDOEVENT: return CO_TPDO_EVENT;
    case T_PDONUM: return CO_TPDO_NUM; case T_PDOMAP: return CO_TPDO_MAP; case T_PARASTORE: return CO_TPARA_STORE; case T_PARARESTORE: return CO_TPARA_RESTORE;
    case T_USER: return &COTVerifUser; case T_APP: return &COTVerifApp;
    }
    return nullptr;
}

void World::build(int slot, const NodeCfg &cfg, std::vector<ObjSpec> objs, const std::vector<ParaSpec> &paras,
                  const std::vector<std::pair<uint8_t, uint16_t>> &emcyTbl, size_t nvmSize) {
    Slot &S = s[slot];
    if (S.alive) teardown(slot);
    bool keepNvm = !S.nvm.empty() && nvmSize == S.nvm.size();
    std::vector<uint8_t> nvmKeep; if (keepNvm) nvmKeep = S.nvm;
    bool lssStored = S.lssStored; uint32_t lssBaud = S.lssBaud; uint8_t lssNode = S.lssNode;
    S = Slot();
    S.lssStored = lssStored; S.lssBaud = lssBaud; S.lssNode = lssNode;
    S.cfg = cfg; S.alive = true;
    S.nvm = keepNvm ? nvmKeep : std::vector<uint8_t>(nvmSize, 0xFF);
    std::stable_sort(objs.begin(), objs.end(), [](const ObjSpec &a, const ObjSpec &b) { return (a.idx << 8 | a.sub) < (b.idx << 8 | b.sub); });
    // drop duplicates (keep first)
    std::vector<ObjSpec> u; for (auto &o : objs) if (u.empty() || u.back().idx != o.idx || u.back().sub != o.sub) u.push_back(o);
    S.specs = u; S.ndict = u.size();
    // parameter groups
    S.paraSpecs = paras;
    for (auto &ps : paras) {
        CO_PARA *pg = (CO_PARA *)zalloc(S, sizeof(CO_PARA));
        uint8_t *ram = (uint8_t *)zalloc(S, ps.size); uint8_t *def = (uint8_t *)zalloc(S, ps.size);
        pg->Offset = ps.offset; pg->Size = ps.size; pg->Start = ram; pg->Default = def; pg->Type = (CO_NMT_RESET)ps.type; pg->Ident = nullptr; pg->Value = ps.value;
        S.paras.push_back(pg); S.paraRam.push_back(ram);
    }
    S.dict = (CO_OBJ *)zalloc(S, (S.ndict + cfg.dictExtra) * sizeof(CO_OBJ));
    for (size_t i = 0; i < S.ndict; i++) {
        const ObjSpec &o = u[i]; CO_OBJ &d = S.dict[i];
        d.Key = o.key(); d.Type = type_of(o.type); d.Data = 0;
        int w = ot_width(o.type, o.sub);
        bool direct = (o.flags & CO_OBJ_D_____) != 0;
        switch (o.type) {
        case T_DOMAIN: {
            CO_OBJ_DOM *dom = (CO_OBJ_DOM *)zalloc(S, sizeof(CO_OBJ_DOM)); uint8_t *mem = (uint8_t *)zalloc(S, o.bytes.size());
            if (!o.bytes.empty()) memcpy(mem, o.bytes.data(), o.bytes.size());
            dom->Offset = 0; dom->Size = (uint32_t)o.bytes.size(); dom->Start = mem; d.Data = (CO_DATA)dom; break; }
        case T_STRING: {
            CO_OBJ_STR *str = (CO_OBJ_STR *)zalloc(S, sizeof(CO_OBJ_STR)); uint8_t *mem = (uint8_t *)zalloc(S, o.bytes.size() + 1);
            if (!o.bytes.empty()) memcpy(mem, o.bytes.data(), o.bytes.size());
            str->Offset = 0; str->Start = mem; d.Data = (CO_DATA)str; break; }
        case T_USER: d.Data = (CO_DATA)o.val; d.Key |= CO_OBJ_D_____; break;
        case T_APP: { AppObj *a = (AppObj *)zalloc(S, sizeof(AppObj)); uint32_t v = o.val; memcpy(a->val, &v, 4); a->beh = o.aux; d.Data = (CO_DATA)a; d.Key &= ~(uint32_t)CO_OBJ_D_____; break; }
        case T_HBCONS:
            if (o.sub > 0) { CO_HBCONS *h = (CO_HBCONS *)zalloc(S, sizeof(CO_HBCONS)); h->Time = (uint16_t)o.val; h->NodeId = (uint8_t)o.aux; h->Tmr = -1; d.Data = (CO_DATA)h; d.Key &= ~(uint32_t)CO_OBJ_D_____; break; }
            goto integer;
        case T_PARASTORE: case T_PARARESTORE:
            if (o.sub > 0) { d.Data = (CO_DATA)S.paras[(size_t)o.aux % S.paras.size()]; d.Key &= ~(uint32_t)CO_OBJ_D_____; break; }
            goto integer;
        default:
        integer:
            if (direct) d.Data = (CO_DATA)(w == 1 ? (o.val & 0xFF) : w == 2 ? (o.val & 0xFFFF) : o.val);
            else { uint8_t *mem = (o.pgrp >= 0 && (size_t)o.pgrp < S.paraRam.size() && o.poff + (uint32_t)w <= paras[(size_t)o.pgrp].size) ? S.paraRam[(size_t)o.pgrp] + o.poff : (uint8_t *)zalloc(S, (size_t)w); uint32_t v = o.val; memcpy(mem, &v, (size_t)w); d.Data = (CO_DATA)mem; }
            break;
        }
    }
    S.tmrmem = (CO_TMR_MEM *)zalloc(S, cfg.tmrNum * sizeof(CO_TMR_MEM));
    S.sdobuf = (uint8_t *)zalloc(S, (size_t)CO_SSDO_N * CO_SDO_BUF_BYTE);
    S.nemcy = emcyTbl.size();
    if (S.nemcy) { S.emcy = (CO_EMCY_TBL *)zalloc(S, S.nemcy * sizeof(CO_EMCY_TBL)); for (size_t i = 0; i < S.nemcy; i++) { S.emcy[i].Reg = emcyTbl[i].first; S.emcy[i].Code = emcyTbl[i].second; } }
    S.node = (CO_NODE *)zalloc(S, sizeof(CO_NODE));
#ifdef COSIM_VALGRIND
    if (getenv("COSIM_NODE_UNDEFINED")) { VALGRIND_MAKE_MEM_UNDEFINED(S.node, sizeof(CO_NODE)); VALGRIND_MAKE_MEM_UNDEFINED(S.tmrmem, cfg.tmrNum * sizeof(CO_TMR_MEM)); VALGRIND_MAKE_MEM_UNDEFINED(S.sdobuf, (size_t)CO_SSDO_N * CO_SDO_BUF_BYTE); }   // experiment: does the stack rely on zeroed node memory?
#endif
    S.drv.Can = &canDrv; S.drv.Timer = &tmrDrv; S.drv.Nvm = &nvmDrv;
    S.spec.NodeId = cfg.nodeId; S.spec.Baudrate = cfg.baud; S.spec.Dict = S.dict; S.spec.DictLen = (uint16_t)(S.ndict + cfg.dictExtra);
    S.spec.EmcyCode = S.emcy; S.spec.TmrMem = S.tmrmem; S.spec.TmrNum = cfg.tmrNum; S.spec.TmrFreq = cfg.freq; S.spec.Drv = &S.drv; S.spec.SdoBuf = S.sdobuf;
}

void World::init(int slot) { cur = slot; Slot &S = s[slot]; S.lockDepth = 0; paint_stack(); CONodeInit(S.node, &S.spec); }
void World::start(int slot) { cur = slot; CONodeStart(s[slot].node); }
void World::teardown(int slot) {
    Slot &S = s[slot];
    for (void *p : S.allocs) free(p);
    S.allocs.clear(); S.paras.clear(); S.paraRam.clear(); S.node = nullptr; S.dict = nullptr; S.alive = false;
}

// ------------------------------------------------------------------ objects
CO_OBJ *World::obj(int slot, uint16_t idx, uint8_t sub) {
    Slot &S = s[slot];
    for (size_t i = 0; i < S.ndict; i++) if (S.specs[i].idx == idx && S.specs[i].sub == sub) return &S.dict[i];
    return nullptr;
}
const ObjSpec *World::ospec(int slot, uint16_t idx, uint8_t sub) {
    Slot &S = s[slot];
    for (size_t i = 0; i < S.ndict; i++) if (S.specs[i].idx == idx && S.specs[i].sub == sub) return &S.specs[i];
    return nullptr;
}
static uint32_t raw_of(const ObjSpec &o, const CO_OBJ &d) {
    int w = ot_width(o.type, o.sub);
    if (o.type == T_HBCONS && o.sub > 0) { CO_HBCONS *h = (CO_HBCONS *)d.Data; return (uint32_t)h->Time | (uint32_t)h->NodeId << 16; }
    if ((o.type == T_PARASTORE) && o.sub > 0) return ((CO_PARA *)d.Data)->Value;
    if ((o.type == T_PARARESTORE) && o.sub > 0) return ((CO_PARA *)d.Data)->Default ? 1u : 0u;
    if (o.type == T_USER) return (uint32_t)d.Data;
    if (o.type == T_APP) { uint32_t v = 0; memcpy(&v, ((AppObj *)d.Data)->val, 4); return v; }
    if (w == 0) return 0;
    if (d.Key & CO_OBJ_D_____) { uint32_t v = (uint32_t)d.Data; return w == 1 ? (v & 0xFF) : w == 2 ? (v & 0xFFFF) : v; }
    uint32_t v = 0; memcpy(&v, (void *)d.Data, (size_t)w); return v;
}
uint32_t World::raw(int slot, uint16_t idx, uint8_t sub) {
    Slot &S = s[slot];
    for (size_t i = 0; i < S.ndict; i++) if (S.specs[i].idx == idx && S.specs[i].sub == sub) return raw_of(S.specs[i], S.dict[i]);
    return 0;
}
void World::setraw(int slot, uint16_t idx, uint8_t sub, uint32_t v) {
    Slot &S = s[slot];
    for (size_t i = 0; i < S.ndict; i++) if (S.specs[i].idx == idx && S.specs[i].sub == sub) {
        int w = ot_width(S.specs[i].type, sub); CO_OBJ &d = S.dict[i];
        if (d.Key & CO_OBJ_D_____) d.Data = (CO_DATA)(w == 1 ? (v & 0xFF) : w == 2 ? (v & 0xFFFF) : v); else if (w) memcpy((void *)d.Data, &v, (size_t)w);
    }
}
static void bytes_of(const ObjSpec &o, const CO_OBJ &d, std::vector<uint8_t> &out) {
    if (o.type == T_DOMAIN) { CO_OBJ_DOM *dom = (CO_OBJ_DOM *)d.Data; out.insert(out.end(), dom->Start, dom->Start + o.bytes.size()); return; }
    if (o.type == T_STRING) { CO_OBJ_STR *st = (CO_OBJ_STR *)d.Data; out.insert(out.end(), st->Start, st->Start + o.bytes.size() + 1); return; }
    int w = ot_width(o.type, o.sub); if (o.type == T_USER || o.type == T_APP) w = 4;
    uint32_t v = raw_of(o, d); for (int i = 0; i < w; i++) out.push_back((uint8_t)(v >> (8 * i)));
}
std::vector<uint8_t> World::bytes(int slot, uint16_t idx, uint8_t sub) {
    Slot &S = s[slot]; std::vector<uint8_t> out;
    for (size_t i = 0; i < S.ndict; i++) if (S.specs[i].idx == idx && S.specs[i].sub == sub) bytes_of(S.specs[i], S.dict[i], out);
    return out;
}
std::vector<uint8_t> World::image(int slot) {
    Slot &S = s[slot]; std::vector<uint8_t> out;
    for (size_t i = 0; i < S.ndict; i++) bytes_of(S.specs[i], S.dict[i], out);
    return out;
}

// ------------------------------------------------------------------ operations
// Uninitialised stack reads inside the stack (e.g. frame bytes beyond the DLC) must not make a run depend on what the
// harness left on the stack: overwrite the region below the current frame with a constant pattern before entering the stack.
// Fills the stack below the caller with a fixed pattern so that a read of an uninitialised local by the code under test cannot make a
// run depend on what ran before (determinism). In the valgrind build (COSIM_VALGRIND) the painted area is then declared undefined again,
// so memcheck still reports a decision that depends on such a byte.
__attribute__((noinline)) void paint_stack() {
    volatile uint8_t pad[24576]; for (size_t i = 0; i < sizeof pad; i += 8) *(volatile uint64_t *)(pad + i) = 0xA5A5A5A5A5A5A5A5ull;
#ifdef COSIM_VALGRIND
    VALGRIND_MAKE_MEM_UNDEFINED((const void *)pad, sizeof pad);
#endif
}
void World::paint_stack_hook() { paint_stack(); }
void World::rx(int slot, const Frame &f) {
    Slot &S = s[slot];
    if (S.rx.size() >= S.cfg.rxDepth) { S.rxOverruns++; return; }
    S.rx.push_back(f);
}
void World::canproc(int slot) { cur = slot; s[slot].txInOp = 0; paint_stack(); CONodeProcess(s[slot].node); }
void World::drain(int slot, int max) { while (!s[slot].rx.empty() && max-- > 0) canproc(slot); }
void World::isr(int slot) {
    int save = cur; cur = slot; Slot &S = s[slot];
    S.now++;
    (void)COTmrService(&S.node->Tmr);
    cur = save;
}
void World::process(int slot) { cur = slot; paint_stack(); COTmrProcess(&s[slot].node->Tmr); }
void World::tick(int slot, uint64_t n) {
    cur = slot; Slot &S = s[slot]; paint_stack();
    int budget = 50000;   // a tick operation ends early after 50000 expiries (deterministic; keeps huge jumps cheap)
    while (n > 0 && budget-- > 0) {
        uint32_t c = S.counter;
        if (c == 0) { S.now += n; break; }
        if ((uint64_t)c > n) { S.counter = c - (uint32_t)n; S.now += n; break; }
        S.now += c; n -= c; S.counter = 1;
        int16_t r = COTmrService(&S.node->Tmr);
        if (r > 0 && S.cfg.strict) COTmrProcess(&S.node->Tmr);
    }
}
void World::preemptPoint(int site) {
    if (inIsr) return;
    if (s[cur].lockDepth != 0) return;
    uint32_t idx = ppCount++;
    if (onPreemptPoint) onPreemptPoint(site);
    for (uint32_t p : preemptAt) if (p == idx) { inIsr = true; isr(cur); inIsr = false; ppFired++; if (onPreemptPoint) onPreemptPoint(-site - 1); }
}
std::vector<Frame> World::txSince(size_t mark, int slot, bool includeFailed) {
    std::vector<Frame> r;
    for (size_t i = mark; i < evs.size(); i++) if ((evs[i].kind == EV_TX || (includeFailed && evs[i].kind == EV_TXFAIL)) && (slot < 0 || evs[i].slot == slot)) r.push_back(evs[i].f);
    return r;
}
int World::tmrUsedActions(int slot) {
    CO_TMR *t = &s[slot].node->Tmr; int freeActs = 0; int guard = 0;
    for (CO_TMR_ACTION *a = t->Acts; a && guard < 100000; a = a->Next, guard++) freeActs++;
    return (int)t->Max - freeActs;
}

// ------------------------------------------------------------------ dictionary helpers
void add_typed(std::vector<ObjSpec> &v, OT t, uint16_t idx, uint8_t sub, uint8_t flags, uint32_t val, int aux) {
    ObjSpec o; o.idx = idx; o.sub = sub; o.flags = flags; o.type = t; o.val = val; o.aux = aux; v.push_back(o);
}
void add_u8(std::vector<ObjSpec> &v, uint16_t idx, uint8_t sub, uint8_t flags, uint8_t val) { add_typed(v, T_U8, idx, sub, flags, val); }
void add_u16(std::vector<ObjSpec> &v, uint16_t idx, uint8_t sub, uint8_t flags, uint16_t val) { add_typed(v, T_U16, idx, sub, flags, val); }
void add_u32(std::vector<ObjSpec> &v, uint16_t idx, uint8_t sub, uint8_t flags, uint32_t val) { add_typed(v, T_U32, idx, sub, flags, val); }
void add_domain(std::vector<ObjSpec> &v, uint16_t idx, uint8_t sub, uint8_t flags, const std::vector<uint8_t> &bytes) {
    ObjSpec o; o.idx = idx; o.sub = sub; o.flags = flags & (uint8_t)~CO_OBJ_D_____; o.type = T_DOMAIN; o.bytes = bytes; v.push_back(o);
}
void add_string(std::vector<ObjSpec> &v, uint16_t idx, uint8_t sub, const std::vector<uint8_t> &bytes) {
    ObjSpec o; o.idx = idx; o.sub = sub; o.flags = CO_OBJ_____R_; o.type = T_STRING; o.bytes = bytes; v.push_back(o);
}
void add_mandatory(std::vector<ObjSpec> &v, int nSsdo) {
    add_u32(v, 0x1000, 0, CO_OBJ_D___R_, 0x00000191);
    add_u8(v, 0x1001, 0, CO_OBJ_____R_, 0);
    add_u8(v, 0x1018, 0, CO_OBJ_D___R_, 4);
    add_u32(v, 0x1018, 1, CO_OBJ_D___R_, 0x11111111); add_u32(v, 0x1018, 2, CO_OBJ_D___R_, 0x22222222);
    add_u32(v, 0x1018, 3, CO_OBJ_D___R_, 0x33333333); add_u32(v, 0x1018, 4, CO_OBJ_D___R_, 0x44444444);
    for (int n = 0; n < nSsdo; n++) {
        add_u8(v, (uint16_t)(0x1200 + n), 0, CO_OBJ_D___R_, 2);
        if (n == 0) {
            add_typed(v, T_SDOID, 0x1200, 1, CO_OBJ_DN__R_, 0x600); add_typed(v, T_SDOID, 0x1200, 2, CO_OBJ_DN__R_, 0x580);
        } else {
            add_typed(v, T_SDOID, (uint16_t)(0x1200 + n), 1, CO_OBJ_DN__R_, 0x640); add_typed(v, T_SDOID, (uint16_t)(0x1200 + n), 2, CO_OBJ_DN__R_, 0x5C0);
        }
    }
}
void add_rpdo(std::vector<ObjSpec> &v, int num, uint32_t cobid, uint8_t type, const std::vector<uint32_t> &maps, bool writable) {
    uint8_t f = writable ? CO_OBJ_____RW : CO_OBJ_____R_;
    uint16_t c = (uint16_t)(0x1400 + num), m = (uint16_t)(0x1600 + num);
    add_u8(v, c, 0, CO_OBJ_D___R_, 2); add_typed(v, T_PDOID, c, 1, f, cobid); add_typed(v, T_PDOTYPE, c, 2, f, type);
    add_typed(v, T_PDONUM, m, 0, f, (uint32_t)maps.size());
    for (size_t i = 0; i < 8; i++) if (i < maps.size() || writable) add_typed(v, T_PDOMAP, m, (uint8_t)(i + 1), f, i < maps.size() ? maps[i] : 0);
}
void add_tpdo(std::vector<ObjSpec> &v, int num, uint32_t cobid, uint8_t type, uint16_t inhibit, uint16_t evtime, const std::vector<uint32_t> &maps, bool writable) {
    uint8_t f = writable ? CO_OBJ_____RW : CO_OBJ_____R_;
    uint16_t c = (uint16_t)(0x1800 + num), m = (uint16_t)(0x1A00 + num);
    add_u8(v, c, 0, CO_OBJ_D___R_, 5); add_typed(v, T_PDOID, c, 1, f, cobid); add_typed(v, T_PDOTYPE, c, 2, f, type);
    add_u16(v, c, 3, f, inhibit); add_typed(v, T_PDOEVENT, c, 5, f, evtime);
    add_typed(v, T_PDONUM, m, 0, f, (uint32_t)maps.size());
    for (size_t i = 0; i < 8; i++) if (i < maps.size() || writable) add_typed(v, T_PDOMAP, m, (uint8_t)(i + 1), f, i < maps.size() ? maps[i] : 0);
}

} // namespace sim

// ------------------------------------------------------------------ application callbacks (strong definitions)
using namespace sim;
extern "C" {
void CONodeFatalError(void) { if (W) { W->fatal = true; W->ev(EV_FATAL); } }
void COTmrLock(void) {
    if (!W) return;
    if (W->S().lockDepth == 0) W->preemptPoint(1000);
    W->S().lockDepth++;
    if (W->S().lockDepth == 1) W->S().lockStamp = W->S().now;
}
void COTmrUnlock(void) {
    if (!W) return;
    Slot &S = W->S();
    S.lockDepth--;
    if (S.lockDepth < 0) { S.lockDepth = 0; S.lockUnbalanced = true; }
    if (S.lockDepth == 0) W->preemptPoint(1001);
}
void COVerifYield(int site) { if (W) W->preemptPoint(site); }
void CONmtModeChange(CO_NMT *, CO_MODE mode) { if (W) { W->ev(EV_MODECHANGE, mode); if (W->onModeChange) W->onModeChange((int)mode); } }
void CONmtResetRequest(CO_NMT *, CO_NMT_RESET reset) { if (W) { W->ev(EV_RESETREQ, reset); if (W->onResetRequest) W->onResetRequest((int)reset); } }
void CONmtHbConsEvent(CO_NMT *, uint8_t nodeId) { if (W) { W->ev(EV_HBEVENT, nodeId); if (W->onHbConsEvent) W->onHbConsEvent(nodeId); } }
void CONmtHbConsChange(CO_NMT *, uint8_t nodeId, CO_MODE mode) { if (W) { W->ev(EV_HBCHANGE, nodeId, mode); if (W->onHbConsChange) W->onHbConsChange(nodeId, (int)mode); } }
CO_ERR COLssLoad(uint32_t *baudrate, uint8_t *nodeId) {
    if (!W) return CO_ERR_NONE;
    Slot &S = W->S();
    W->ev(EV_LSSLOAD);
    if (S.lssLoadFail > 0) { S.lssLoadFail--; return CO_ERR_LSS_LOAD; }
    if (S.lssStored) { if (S.lssBaud != 0) *baudrate = S.lssBaud;
        if (S.lssNode != 0) { if (S.lssLoadViaApi && S.node && CONmtGetMode(&S.node->Nmt) == CO_INIT) CONmtSetNodeId(&S.node->Nmt, S.lssNode); else *nodeId = S.lssNode; } }
    return CO_ERR_NONE;
}
CO_ERR COLssStore(uint32_t baudrate, uint8_t nodeId) {
    if (!W) return CO_ERR_NONE;
    Slot &S = W->S();
    if (S.lssStoreFail > 0) { S.lssStoreFail--; W->ev(EV_LSSSTORE, baudrate, nodeId, 1); return CO_ERR_LSS_STORE; }
    S.lssStored = true; S.lssBaud = baudrate; S.lssNode = nodeId;
    W->ev(EV_LSSSTORE, baudrate, nodeId, 0);
    return CO_ERR_NONE;
}
void COIfCanReceive(CO_IF_FRM *frm) { if (!W) return; Frame f; f.id = frm->Identifier; f.dlc = frm->DLC; memcpy(f.d, frm->Data, 8); W->ev(EV_CANRECEIVE, 0, 0, 0, &f); if (W->onCanReceive) W->onCanReceive(f); }
void COPdoTransmit(CO_IF_FRM *frm) { if (!W) return; Frame f; f.id = frm->Identifier; f.dlc = frm->DLC; memcpy(f.d, frm->Data, f.dlc > 8 ? 8 : f.dlc); W->ev(EV_PDOTRANSMIT, 0, 0, 0, &f); if (W->onPdoTransmit) W->onPdoTransmit(f); }
int16_t COPdoReceive(CO_IF_FRM *frm) { if (!W) return 0; Frame f; f.id = frm->Identifier; f.dlc = frm->DLC; memcpy(f.d, frm->Data, 8); W->ev(EV_PDORECEIVE, W->S().pdoReceiveRet, 0, 0, &f); if (W->onPdoReceive) W->onPdoReceive(f); return (int16_t)W->S().pdoReceiveRet; }
void COPdoSyncUpdate(CO_RPDO *pdo) { if (!W) return; W->ev(EV_SYNCUPDATE, (int64_t)(pdo - W->S().node->RPdo)); if (W->onSyncUpdate) W->onSyncUpdate((int)(pdo - W->S().node->RPdo)); }
int16_t COParaDefault(struct CO_PARA_T *pg) {
    if (!W) return 0;
    Slot &S = W->S(); int64_t idx = -1;
    for (size_t i = 0; i < S.paras.size(); i++) if (S.paras[i] == pg) idx = (int64_t)i;
    W->ev(EV_PARADEFAULT, idx);
    if (S.paraDefaultRet == 0 && pg->Default && pg->Start) memcpy(pg->Start, pg->Default, pg->Size);
    return (int16_t)S.paraDefaultRet;
}
void CORpdoWriteData(CO_IF_FRM *, uint8_t pos, uint8_t size, CO_OBJ *) { if (W) W->ev(EV_RPDOWRDATA, pos, size); }
void COTpdoReadData(CO_IF_FRM *, uint8_t pos, uint8_t size, CO_OBJ *) { if (W) W->ev(EV_TPDORDDATA, pos, size); }
}
