// Reference CiA-301 SDO client sessions + the dictionary used by the SDO server scenarios.
#pragma once
#include "world.hpp"

namespace sim {

enum SdoMode { M_EXP = 0, M_SEG = 1, M_BLK = 2 };

struct SdoObj {           // metadata of one object reachable by the SDO scenarios
    uint16_t idx; uint8_t sub; int kind; // 0 int, 1 domain, 2 string, 3 user type, 4 special (typed cia301 object)
    uint32_t size; bool rd, wr; bool nodeid;
};

static inline uint8_t pat(uint32_t seed, uint32_t i) { return (uint8_t)(seed * 131u + i * 7u + (i >> 8) * 13u + 1u); }

// Objects 2000h.. : plain data of every kind. Sizes of the domains come from the plan's cfg.
struct SdoDict {
    std::vector<ObjSpec> specs; std::vector<SdoObj> objs;
    void addInt(uint16_t idx, uint8_t sub, int w, uint8_t flags, uint32_t val) {
        add_typed(specs, w == 1 ? T_U8 : w == 2 ? T_U16 : T_U32, idx, sub, flags, val);
        objs.push_back({idx, sub, 0, (uint32_t)w, (flags & CO_OBJ_____R_) != 0, (flags & CO_OBJ______W) != 0, (flags & CO_OBJ__N____) != 0});
    }
    void addDom(uint16_t idx, uint8_t sub, uint32_t size, uint8_t flags, uint32_t seed) {
        std::vector<uint8_t> b(size); for (uint32_t i = 0; i < size; i++) b[i] = pat(seed, i);
        add_domain(specs, idx, sub, flags, b); objs.push_back({idx, sub, 1, size, (flags & CO_OBJ_____R_) != 0, (flags & CO_OBJ______W) != 0, false});
    }
    void addStr(uint16_t idx, uint8_t sub, uint32_t len, uint32_t seed) {
        std::vector<uint8_t> b(len); for (uint32_t i = 0; i < len; i++) b[i] = (uint8_t)(i % 5 == 3 ? (0x80 | pat(seed, i)) : 32 + pat(seed, i) % 90);   // text with bytes above 7Fh (UTF-8, Latin-1), never NUL
        add_string(specs, idx, sub, b); objs.push_back({idx, sub, 2, len, true, false, false});
    }
    void build(const Plan &p, int nSsdo, bool constSdoIds = true) {
        add_mandatory(specs, nSsdo); (void)constSdoIds;
        if (p.c("poolfull", -1) >= 0) add_typed(specs, T_HBPROD, 0x1017, 0, CO_OBJ_____RW, 0);
        if (p.c("hbcons", 0)) { add_typed(specs, T_HBCONS, 0x1016, 0, CO_OBJ_D___R_, 3); for (int k = 1; k <= 3; k++) { uint32_t v = (uint32_t)p.c("hbc" + std::to_string(k), 0); add_typed(specs, T_HBCONS, 0x1016, (uint8_t)k, CO_OBJ_____RW, v & 0xFFFF, (int)(v >> 16 & 0x7F)); } }   // C04 plans: heartbeat consumer entries (verdict 0604 0043h for a node that is monitored already)
        if (p.c("resetfail", 0)) { ObjSpec o; o.idx = 0x2305; o.sub = 0; o.flags = CO_OBJ_____RW; o.type = T_USER; o.val = 0xFFFF; specs.push_back(o); }   // C05 plans: an entry whose type refuses the rewind at the start of a transfer   // C04 plans: a writable entry whose type needs a timer slot
        uint16_t i = 0x2000;
        addInt(i, 0, 1, CO_OBJ_D___R_, 9);
        addInt(i, 1, 1, CO_OBJ_____RW, 0x11); addInt(i, 2, 2, CO_OBJ_____RW, 0x2222); addInt(i, 3, 4, CO_OBJ_____RW, 0x33333333);
        addInt(i, 4, 1, CO_OBJ_D___RW, 0x44); addInt(i, 5, 2, CO_OBJ_D___RW, 0x5555); addInt(i, 6, 4, CO_OBJ_D___RW, 0x66666666);
        addInt(i, 7, 4, CO_OBJ__N__RW, 0x100); addInt(i, 8, 2, CO_OBJ_DN__RW, 0x200); addInt(i, 9, 1, CO_OBJ_DN__RW, 0x10);
        addInt(0x2001, 0, 4, CO_OBJ_____R_, 0xCAFEBABE); addInt(0x2002, 0, 4, CO_OBJ______W, 0x0BADF00D);
        addInt(0x2003, 0, 2, CO_OBJ_D___R_, 0x1234); addInt(0x2004, 0, 1, CO_OBJ_D____W, 0x77);
        addDom(0x2100, 0, (uint32_t)p.c("dom0", 20), CO_OBJ_____RW, 1);
        addDom(0x2101, 0, (uint32_t)p.c("dom1", 889), CO_OBJ_____RW, 2);
        addDom(0x2102, 0, (uint32_t)p.c("dom2", 4000), CO_OBJ_____RW, 3);
        addDom(0x2103, 0, (uint32_t)p.c("dom3", 7), CO_OBJ_____R_, 4);
        addDom(0x2104, 0, (uint32_t)p.c("dom4", 8), CO_OBJ______W, 5);
        addDom(0x2105, 0, (uint32_t)p.c("dom5", 3), CO_OBJ_____RW, 6);
        addStr(0x2200, 0, (uint32_t)p.c("str0", 11), 7); addStr(0x2201, 0, (uint32_t)p.c("str1", 300), 8);
        // 2301h..2304h: a type that rejects every written value with a CO_ERR the server has to translate (range, mapping type, mapping length, incompatibility);
        // in the dictionary only (not in 'objs'): addressed by the C04 request generator, never by whole sessions
        { static const CO_ERR rej[] = {CO_ERR_OBJ_RANGE, CO_ERR_OBJ_MAP_TYPE, CO_ERR_OBJ_MAP_LEN, CO_ERR_OBJ_INCOMPATIBLE}; for (int k = 0; k < 4; k++) { ObjSpec o; o.idx = (uint16_t)(0x2301 + k); o.sub = 0; o.flags = CO_OBJ_____RW; o.type = T_USER; o.val = (uint32_t)rej[k]; specs.push_back(o); } }
        // entries far away in the index space (profile areas): the lookup has to order keys that differ by more than 8000h in the index
        { ObjSpec o; o.idx = 0x2300; o.sub = 0; o.flags = CO_OBJ_____RW; o.type = T_USER; o.val = 0x06060000u + (uint32_t)p.c("usercode", 0x10); specs.push_back(o); objs.push_back({0x2300, 0, 3, 4, true, true, false}); }
        addInt(0x6000, 0, 4, CO_OBJ_____RW, 0x60006000); addInt(0xA100, 0, 2, CO_OBJ_____RW, 0xA100); addInt(0xBFFF, 0, 1, CO_OBJ_____RW, 0xBF);   // objs 23..25
        // application-defined entries whose type functions call back into the stack (world.hpp, T_APP): 2500h:1 reads its sibling 2500h:2 inside Read and Write (objs 26, 27);
        // 'appcmd' plans (C04, C05): 2501h 'shut down' (its Write calls CONmtSetMode(STOP)), 2502h 'service lock' (its Write invalidates 1200h:1) - dictionary only, addressed by raw requests
        { ObjSpec o; o.idx = 0x2500; o.sub = 1; o.flags = CO_OBJ_____RW; o.type = T_APP; o.val = 0xA1B2C3D4; o.aux = APP_NESTED_READ; specs.push_back(o); objs.push_back({0x2500, 1, 0, 4, true, true, false}); }
        addInt(0x2500, 2, 1, CO_OBJ_____RW, 0x5A); add_u8(specs, 0x2500, 0, CO_OBJ_D___R_, 2);
        if (p.c("appcmd", 0)) { ObjSpec o; o.idx = 0x2501; o.sub = 0; o.flags = CO_OBJ_____RW; o.type = T_APP; o.val = 1; o.aux = APP_MODE_STOP; specs.push_back(o); o.idx = 0x2502; o.aux = APP_LOCK_SDO; o.val = 2; specs.push_back(o); }
    }
    const SdoObj *find(uint16_t idx, uint8_t sub) const { for (auto &o : objs) if (o.idx == idx && o.sub == sub) return &o; return nullptr; }
    bool hasIndex(uint16_t idx) const { for (auto &s : specs) if (s.idx == idx) return true; return false; }
    bool hasEntry(uint16_t idx, uint8_t sub) const { for (auto &s : specs) if (s.idx == idx && s.sub == sub) return true; return false; }
};

// value an SDO client sees for an object = storage bytes (+ node id for node-id relative integers; strings without NUL)
static inline std::vector<uint8_t> sdo_view(World &w, int slot, const SdoObj &o) {
    std::vector<uint8_t> b = w.bytes(slot, o.idx, o.sub);
    if (o.kind == 2) { b.resize(o.size); return b; }
    if ((o.kind == 0 || o.kind == 4) && o.nodeid) { uint32_t v = 0; for (size_t i = 0; i < b.size(); i++) v |= (uint32_t)b[i] << (8 * i); v += w.s[slot].node->NodeId; for (size_t i = 0; i < b.size(); i++) b[i] = (uint8_t)(v >> (8 * i)); }
    return b;
}

// ---------------------------------------------------------------------------------------------------------------------------
// One client session. The environment sends next() to the server, hands all frames the server emitted on its TxId
// to onResponses(), and repeats until finished(). Every deviation of the server from CiA 301 is reported via 'viol'.
struct Session {
    // parameters
    int srv = 0; uint16_t idx = 0; uint8_t sub = 0; bool upload = false; int mode = M_EXP; bool announce = true; bool cc = false;
    std::vector<uint8_t> payload;                // download: bytes to write
    uint8_t reqBlk = 127; uint8_t pst = 0;       // block upload
    std::vector<uint8_t> segFault;               // block download: per transmitted segment (global count) 0 none, 1 lost, 2 duplicated
    std::vector<std::pair<int, int>> acks;       // block upload: per sub-block (ack position selector, new block size)
    // state
    enum Ph { P_INIT, P_SEG, P_BLK_SEGS, P_BLK_END, P_BLK_START, P_BLK_ACK, P_BLK_FIN, P_ABORT, P_DONE } ph = P_INIT;
    bool confirmed = false, refused = false, abortedByClient = false; uint32_t abortCode = 0;
    std::string viol, detail;                    // first protocol violation by the server
    uint8_t toggle = 0; uint32_t off = 0;        // byte offset of next data
    std::vector<uint8_t> got; uint32_t announcedSize = 0; bool sizeKnown = false;
    // block download
    uint8_t blk = 0; uint8_t seq = 0; uint32_t blockStart = 0; uint8_t goodSeq = 0; bool seqError = false; uint32_t segCounter = 0; bool dupPending = false; bool lastInBlockSent = false; uint8_t endN = 0;
    // block upload
    uint8_t curBlk = 0; uint32_t subBlockIdx = 0; bool sawLast = false; uint8_t lastValid = 0; uint32_t ackedOff = 0;
    int stepsTaken = 0;

    bool finished() const { return ph == P_DONE; }
    void fail(const std::string &r, const std::string &d) { if (viol.empty()) { viol = r; detail = d; } ph = P_DONE; }
    static std::string hx(const Frame &f) { return f.str(); }
    Frame mk(uint8_t cmd) const { Frame f; f.dlc = 8; f.d[0] = cmd; f.d[1] = (uint8_t)idx; f.d[2] = (uint8_t)(idx >> 8); f.d[3] = sub; return f; }
    Frame abortFrame(uint32_t code = 0x08000000) const { Frame f = mk(0x80); f.d[4] = (uint8_t)code; f.d[5] = (uint8_t)(code >> 8); f.d[6] = (uint8_t)(code >> 16); f.d[7] = (uint8_t)(code >> 24); return f; }
    uint8_t segFaultAt(uint32_t i) const { return i < segFault.size() ? segFault[i] : 0; }

    // ---- next client frame
    Frame next() {
        stepsTaken++;
        switch (ph) {
        case P_INIT:
            if (upload) { if (mode == M_BLK) { Frame f = mk((uint8_t)(0xA0 | (cc ? 4 : 0))); f.d[4] = reqBlk; f.d[5] = pst; return f; } return mk(0x40); }
            if (mode == M_EXP) { uint8_t n = (uint8_t)(4 - payload.size()); Frame f = mk((uint8_t)(0x22 | (announce ? 1 : 0) | (announce ? n << 2 : 0))); for (size_t i = 0; i < payload.size() && i < 4; i++) f.d[4 + i] = payload[i]; return f; }
            if (mode == M_SEG) { Frame f = mk((uint8_t)(0x20 | (announce ? 1 : 0))); if (announce) { uint32_t s = (uint32_t)payload.size(); f.d[4] = (uint8_t)s; f.d[5] = (uint8_t)(s >> 8); f.d[6] = (uint8_t)(s >> 16); f.d[7] = (uint8_t)(s >> 24); } return f; }
            { Frame f = mk((uint8_t)(0xC0 | (cc ? 4 : 0) | (announce ? 2 : 0))); if (announce) { uint32_t s = (uint32_t)payload.size(); f.d[4] = (uint8_t)s; f.d[5] = (uint8_t)(s >> 8); f.d[6] = (uint8_t)(s >> 16); f.d[7] = (uint8_t)(s >> 24); } return f; }
        case P_SEG:
            if (upload) return Frame(0, 8, {(uint8_t)(0x60 | toggle << 4), 0, 0, 0, 0, 0, 0, 0});
            { uint32_t rem = (uint32_t)payload.size() - off; uint32_t n = rem > 7 ? 7 : rem; bool last = rem <= 7; Frame f; f.dlc = 8; f.d[0] = (uint8_t)(toggle << 4 | (7 - n) << 1 | (last ? 1 : 0)); for (uint32_t i = 0; i < n; i++) f.d[1 + i] = payload[off + i]; return f; }
        case P_BLK_SEGS: {
            uint32_t o2 = blockStart + (uint32_t)(seq)*7; uint32_t rem = (uint32_t)payload.size() - o2; uint32_t n = rem > 7 ? 7 : rem; bool last = rem <= 7;
            Frame f; f.dlc = 8; f.d[0] = (uint8_t)((seq + 1) | (last ? 0x80 : 0)); for (uint32_t i = 0; i < n; i++) f.d[1 + i] = payload[o2 + i]; return f; }
        case P_BLK_END: { Frame f; f.dlc = 8; f.d[0] = (uint8_t)(0xC1 | endN << 2); return f; }
        case P_BLK_START: return Frame(0, 8, {0xA3, 0, 0, 0, 0, 0, 0, 0});
        case P_BLK_ACK: { Frame f; f.dlc = 8; f.d[0] = 0xA2; f.d[1] = pendingAck; f.d[2] = pendingBlk; return f; }
        case P_BLK_FIN: return Frame(0, 8, {0xA1, 0, 0, 0, 0, 0, 0, 0});
        case P_ABORT: return abortFrame(0x05040000);
        default: return abortFrame();
        }
    }
    uint8_t pendingAck = 0, pendingBlk = 0;

    // ---- fault decision for the frame returned by next(): 0 deliver, 1 lose, 2 duplicate
    int faultForNext() const {
        if (upload || ph != P_BLK_SEGS) return 0;
        int f = segFaultAt(segCounter);
        bool last = (blockStart + (uint32_t)(seq + 1) * 7) >= payload.size(); bool blockEnd = last || (seq + 1 == blk);
        if (blockEnd && f == 2) return 0;     // a duplicated block-final segment is not generated (its second copy would belong to the next block)
        return f;
    }

    bool isAbort(const Frame &f) const { return f.d[0] == 0x80; }
    bool muxOk(const Frame &f) const { return f.u16(1) == idx && f.d[3] == sub; }

    // 'delivered': 0 = frame was lost, 1 = once, 2 = twice.  resp = frames on the server's TxId.
    // firstFail >= 0: resp[firstFail] (and possibly later ones) were built by the server but refused by its CAN driver, the client never saw them
    bool lostResponse = false;
    void onResponses(const std::vector<Frame> &respAll, int delivered, const std::vector<uint8_t> &truth, int firstFail = -1) {
        Ph was = ph;
        bool burst = (was == P_BLK_START || was == P_BLK_ACK) && !(was == P_BLK_ACK && sawLastAcked);
        if (firstFail >= 0 && !burst) {   // the one answer the client waits for never arrives: it times out and aborts (whatever the answer was)
            if (was == P_ABORT) { ph = P_DONE; return; }
            lostResponse = true; abortedByClient = true; ph = P_ABORT; return;
        }
        const std::vector<Frame> &resp = respAll;
        // generic: an abort from the server ends the session
        for (auto &f : resp) if (isAbort(f)) {
            if (resp.size() != 1) { fail("abort-plus-frames", "abort together with other frames"); return; }
            if (was == P_ABORT) { ph = P_DONE; return; }
            if (was == P_BLK_FIN) { fail("unexpected-abort", hx(f)); return; }
            refused = true; abortCode = f.u32(4);
            if (was == P_INIT && !muxOk(f)) { fail("abort-mux", "abort does not carry the request's multiplexer: " + hx(f)); return; }
            ph = P_DONE; return;
        }
        switch (was) {
        case P_INIT: {
            if (resp.size() != 1) { fail("init-count", std::to_string(resp.size()) + " responses to an initiate request"); return; }
            const Frame &f = resp[0];
            if (!muxOk(f)) { fail("init-mux", "response multiplexer differs from request: " + hx(f)); return; }
            if (!upload) {
                if (mode == M_BLK) { if ((f.d[0] & 0xFB) != 0xA0) { fail("blkdn-init-cmd", hx(f)); return; } blk = f.d[4]; if (blk < 1 || blk > 127) { fail("blkdn-blksize", hx(f)); return; }
                    blockStart = 0; seq = 0; goodSeq = 0; seqError = false; ph = payload.empty() ? P_DONE : P_BLK_SEGS; return; }
                if (f.d[0] != 0x60) { fail("dn-init-cmd", hx(f)); return; }
                if (mode == M_EXP) { confirmed = true; ph = P_DONE; return; }
                toggle = 0; off = 0; ph = P_SEG; return;
            }
            if (mode == M_BLK) {
                if ((f.d[0] & 0xF9) != 0xC0) { fail("blkup-init-cmd", hx(f)); return; }
                if (f.d[0] & 2) { sizeKnown = true; announcedSize = f.u32(4); if (announcedSize != truth.size()) { fail("blkup-size", "announced " + std::to_string(announcedSize) + " object has " + std::to_string(truth.size())); return; } }
                curBlk = reqBlk; ackedOff = 0; got.clear(); ph = P_BLK_START; return;
            }
            if ((f.d[0] & 0xE0) != 0x40) { fail("up-init-cmd", hx(f)); return; }
            if (f.d[0] & 2) { // expedited
                uint32_t n = (f.d[0] & 1) ? 4 - ((f.d[0] >> 2) & 3) : (uint32_t)truth.size();
                if ((f.d[0] & 1) && n != truth.size()) { fail("up-exp-n", "expedited n gives " + std::to_string(n) + " bytes, object has " + std::to_string(truth.size())); return; }
                if (truth.size() > 4) { fail("up-exp-too-big", "object of " + std::to_string(truth.size()) + " bytes answered expedited"); return; }
                got.assign(f.d + 4, f.d + 4 + n); confirmed = true; ph = P_DONE; return;
            }
            if (f.d[0] & 1) { sizeKnown = true; announcedSize = f.u32(4); if (announcedSize != truth.size()) { fail("up-size", "announced " + std::to_string(announcedSize) + " object has " + std::to_string(truth.size())); return; } }
            toggle = 0; got.clear(); ph = P_SEG; return; }
        case P_SEG: {
            if (resp.size() != 1) { fail("seg-count", std::to_string(resp.size()) + " responses to a segment request"); return; }
            const Frame &f = resp[0];
            if (!upload) {
                if ((f.d[0] & 0xEF) != 0x20) { fail("dn-seg-cmd", hx(f)); return; }
                if (((f.d[0] >> 4) & 1) != toggle) { fail("dn-seg-toggle", hx(f)); return; }
                uint32_t rem = (uint32_t)payload.size() - off; uint32_t n = rem > 7 ? 7 : rem; off += n; toggle ^= 1;
                if (off >= payload.size()) { confirmed = true; ph = P_DONE; } return;
            }
            if ((f.d[0] & 0xE0) != 0x00) { fail("up-seg-cmd", hx(f)); return; }
            if (((f.d[0] >> 4) & 1) != toggle) { fail("up-seg-toggle", hx(f)); return; }
            uint32_t n = 7 - ((f.d[0] >> 1) & 7); bool c = f.d[0] & 1;
            got.insert(got.end(), f.d + 1, f.d + 1 + n); toggle ^= 1;
            if (got.size() > truth.size()) { fail("up-seg-overrun", "more data than the object holds"); return; }
            if (c) { if (got.size() != truth.size()) { fail("up-length", "transfer ended after " + std::to_string(got.size()) + " of " + std::to_string(truth.size()) + " bytes"); return; } confirmed = true; ph = P_DONE; }
            return; }
        case P_BLK_SEGS: {
            // model of what the server has seen of this sub-block
            bool last = (blockStart + (uint32_t)(seq + 1) * 7) >= payload.size();
            // server-side view: expects goodSeq+1 next; after a sequence error it ignores the rest of the block
            if (delivered >= 1) { if (!seqError) { if (seq == goodSeq) goodSeq++; else seqError = true; } }
            if (delivered == 2) seqError = true;      // the second copy arrives out of sequence
            segCounter++;
            bool blockEnd = last || (seq + 1 == blk);
            seq++;
            if (!blockEnd) { if (!resp.empty()) { fail("blkdn-early-response", "response inside a block: " + hx(resp[0])); } return; }
            if (delivered == 0) { abortedByClient = true; ph = P_ABORT; return; }   // final segment of the block lost: the client times out and aborts
            if (resp.size() != 1) { fail("blkdn-ack-count", std::to_string(resp.size()) + " responses at end of block"); return; }
            const Frame &f = resp[delivered == 2 ? 0 : 0];
            if (f.d[0] != 0xA2) { fail("blkdn-ack-cmd", hx(f)); return; }
            if (f.d[1] != goodSeq) { fail("blkdn-ackseq", "acknowledged " + std::to_string(f.d[1]) + ", last in-order segment was " + std::to_string(goodSeq)); return; }
            if (f.d[2] < 1 || f.d[2] > 127) { fail("blkdn-blksize", hx(f)); return; }
            blockStart += (uint32_t)goodSeq * 7; blk = f.d[2];
            if (blockStart >= payload.size()) { uint32_t lastLen = (uint32_t)payload.size() % 7; endN = (uint8_t)(lastLen == 0 ? 0 : 7 - lastLen); ph = P_BLK_END; }
            seq = 0; goodSeq = 0; seqError = false; return; }
        case P_BLK_END: {
            if (resp.size() != 1) { fail("blkdn-end-count", std::to_string(resp.size()) + " responses to end block download"); return; }
            if (resp[0].d[0] != 0xA1) { fail("blkdn-end-cmd", hx(resp[0])); return; }
            confirmed = true; ph = P_DONE; return; }
        case P_BLK_START: case P_BLK_ACK: {
            // a burst of segments (or the end frame after the final acknowledge)
            if (was == P_BLK_ACK && sawLastAcked) {
                if (resp.size() != 1) { fail("blkup-end-count", std::to_string(resp.size()) + " frames after the final acknowledge"); return; }
                const Frame &f = resp[0];
                if ((f.d[0] & 0xE3) != 0xC1) { fail("blkup-end-cmd", hx(f)); return; }
                uint8_t n = (f.d[0] >> 2) & 7; uint32_t lv = truth.size() % 7 == 0 ? 7 : (uint32_t)truth.size() % 7;
                if (n != 7 - lv) { fail("blkup-end-n", "n=" + std::to_string(n) + " but the last segment holds " + std::to_string(lv) + " valid bytes"); return; }
                got.resize(truth.size() < got.size() ? truth.size() : got.size());
                ph = P_BLK_FIN; return;
            }
            if (resp.empty()) { fail("blkup-no-segments", "no segment after start/acknowledge"); return; }
            if (resp.size() > curBlk) { fail("blkup-too-many", std::to_string(resp.size()) + " segments, block size " + std::to_string(curBlk)); return; }
            uint32_t o2 = ackedOff; bool last = false;
            for (size_t i = 0; i < resp.size(); i++) {
                const Frame &f = resp[i];
                if ((f.d[0] & 0x7F) != i + 1) { fail("blkup-seqno", "segment " + std::to_string(i + 1) + " carries " + hx(f)); return; }
                if (last) { fail("blkup-after-last", "segment after the one marked last"); return; }
                uint32_t rem = (uint32_t)truth.size() - o2; uint32_t n = rem > 7 ? 7 : rem;
                if (memcmp(f.d + 1, truth.data() + o2, n) != 0) { fail("blkup-data", "segment " + std::to_string(i + 1) + " at offset " + std::to_string(o2) + " carries " + hx(f)); return; }
                o2 += n; bool isLast = o2 >= truth.size();
                if (((f.d[0] & 0x80) != 0) != isLast) { fail("blkup-cbit", "c bit " + std::to_string(f.d[0] >> 7) + " at offset " + std::to_string(o2) + " of " + std::to_string(truth.size())); return; }
                last = isLast;
            }
            if (!last && resp.size() != curBlk && firstFail < 0) { fail("blkup-short-block", std::to_string(resp.size()) + " segments of " + std::to_string(curBlk) + " without last flag"); return; }
            // choose acknowledge position
            int sel = subBlockIdx < acks.size() ? acks[subBlockIdx].first : 1000; int nb = subBlockIdx < acks.size() ? acks[subBlockIdx].second : reqBlk; subBlockIdx++;
            int sent = (int)resp.size(); if (firstFail >= 0) { sent = firstFail; last = false; }   // the client received the segments before the refused one; what follows a gap is out of sequence
            int k = sel >= 1000 ? sent : sel < 0 ? std::max(0, sent + sel) : std::min(sel, sent);
            if (subBlockIdx > 40) k = sent;      // bounded: stop losing after 40 sub-blocks
            pendingAck = (uint8_t)k; pendingBlk = (uint8_t)(nb < 1 ? 1 : nb > 127 ? 127 : nb);
            uint32_t bytesAcked = 0; { uint32_t o3 = ackedOff; for (int i = 0; i < k; i++) { uint32_t rem = (uint32_t)truth.size() - o3; uint32_t n = rem > 7 ? 7 : rem; o3 += n; } bytesAcked = o3 - ackedOff; }
            got.insert(got.end(), truth.begin() + ackedOff, truth.begin() + ackedOff + bytesAcked);   // identical to the received bytes (checked above)
            ackedOff += bytesAcked; sawLastAcked = (k == sent) && last; curBlk = pendingBlk; if (k < sent) repeats++;
            ph = P_BLK_ACK; return; }
        case P_ABORT: ph = P_DONE; return;
        case P_BLK_FIN: {
            if (!resp.empty()) { fail("blkup-fin-response", "response to end of block upload: " + hx(resp[0])); return; }
            confirmed = true; ph = P_DONE; return; }
        default: return;
        }
    }
    bool sawLastAcked = false; int repeats = 0;
};

// ---------------------------------------------------------------------------------------------------------------------------
// hostile traffic: structured / random SDO frames (shared with the chaos scenario)
static inline Frame sdo_garbage(Rng &r, const SdoDict &d) {
    Frame f; f.dlc = (uint8_t)(r.chance(9, 10) ? 8 : r.below(9));
    static const uint8_t cmds[] = {0x80, 0x40, 0x60, 0x70, 0x20, 0x21, 0x22, 0x23, 0x27, 0x2B, 0x2F, 0x00, 0x10, 0x01, 0x11, 0x0F, 0x1F, 0x0D, 0xC0, 0xC2, 0xC6, 0xC1, 0xC5, 0xDD, 0xA0, 0xA4, 0xA3, 0xA2, 0xA1, 0x81, 0x82, 0xFF, 0x7F, 0x05, 0x85, 0xE0};
    f.d[0] = r.chance(4, 5) ? cmds[r.below(sizeof cmds)] : r.byte();
    int k = (int)r.below(10);
    if (k < 6 && !d.objs.empty()) { const SdoObj &o = d.objs[r.below((uint32_t)d.objs.size())]; f.d[1] = (uint8_t)o.idx; f.d[2] = (uint8_t)(o.idx >> 8); f.d[3] = o.sub; }
    else if (k < 8 && !d.objs.empty()) { const SdoObj &o = d.objs[r.below((uint32_t)d.objs.size())]; f.d[1] = (uint8_t)o.idx; f.d[2] = (uint8_t)(o.idx >> 8); f.d[3] = (uint8_t)(o.sub + 1 + r.below(40)); }
    else { f.d[1] = r.byte(); f.d[2] = r.byte(); f.d[3] = r.byte(); }
    int m = (int)r.below(6);
    if (m == 0) { for (int i = 4; i < 8; i++) f.d[i] = r.byte(); }
    else if (m == 1) { uint32_t s = r.pick<uint32_t>({0, 1, 2, 3, 4, 5, 7, 8, 20, 888, 889, 890, 4000, 4001, 0xffffffffu}); f.d[4] = (uint8_t)s; f.d[5] = (uint8_t)(s >> 8); f.d[6] = (uint8_t)(s >> 16); f.d[7] = (uint8_t)(s >> 24); }
    else if (m == 2) { f.d[4] = r.pick<uint8_t>({0, 1, 2, 126, 127, 128, 255}); }
    if ((f.d[0] & 0xE3) == 0xA2 || r.chance(1, 10)) { f.d[1] = r.pick<uint8_t>({0, 1, 2, 3, 63, 64, 126, 127, 128, 255}); f.d[2] = r.pick<uint8_t>({0, 1, 2, 63, 127, 128, 255}); }
    return f;
}

} // namespace sim
