// C15 (emcy): error state, error register, EMCY frames and pre-defined error field against a reference model.
#include "node_env.hpp"

namespace sim {
namespace {

enum { M_INVALID = 0, M_INIT = 1, M_PREOP = 2, M_OP = 3, M_STOP = 4 };

struct EmcyRun : NodeEnv {
    int m = M_PREOP; std::vector<std::pair<uint8_t, uint16_t>> tbl; int depth = 4; bool has1003 = true;
    std::vector<bool> act; std::vector<uint32_t> hist;   // newest first
    EmcyRun(const Plan &p, Cov &c, bool vb) : NodeEnv(p, c, vb) {}
    bool pendingNest = false; bool tpdo1001 = false, nestReal = false, nestFired = false, nestSet = false; size_t nestErr = 0;   // application code in COPdoTransmit: sets / clears another emergency
    uint8_t reg() { uint8_t r = 0; for (size_t i = 0; i < act.size(); i++) if (act[i]) { r |= 1; if (tbl[i].first) r |= (uint8_t)(1u << tbl[i].first); } return r; }
    int cnt() { int n = 0; for (bool b : act) n += b; return n; }
    void build() {
        nodeId = (uint8_t)plan.c("nodeid", 1); if (nodeId < 1 || nodeId > 127) nodeId = 1; freq = 1000; depth = (int)plan.c("depth", 4); if (depth < 1) depth = 1; if (depth > 254) depth = 254; if (depth > 8) cov.hit("history-deeper-than-128-entries", depth > 128 ? 1 : 0);
        for (auto &o : plan.ops) if (o.k == "err" && (int)tbl.size() < CO_EMCY_N) tbl.push_back({(uint8_t)(o.arg(0) & 7), (uint16_t)o.arg(1)});
        if (tbl.empty()) tbl.push_back({1, 0x2000});
        act.assign(tbl.size(), false);
        add_mandatory(specs, 1);
        add_typed(specs, T_EMCYHIST, 0x1003, 0, CO_OBJ_____RW, 0); for (int i = 1; i <= depth; i++) add_typed(specs, T_EMCYHIST, 0x1003, (uint8_t)i, (uint8_t)(CO_OBJ_____R_ | (i & 1 ? CO_OBJ_D_____ : 0)), 0);
        add_typed(specs, T_EMCYID, 0x1014, 0, CO_OBJ__N__RW, plan.c("cobvalid", 1) ? 0x80u : 0x80000080u);
        // 'tpdo1001': the error register is an asynchronous PDO signal mapped into an event-driven TPDO (a status PDO): every change of 1001h transmits it - and runs COPdoTransmit - in the middle of the emergency update
        tpdo1001 = plan.c("tpdo1001", 0) != 0; if (tpdo1001) { for (auto &sp : specs) if (sp.idx == 0x1001) sp.flags = CO_OBJ___APR_; add_tpdo(specs, 0, 0x40000180u + nodeId, 254, 0, 0, {CO_LINK(0x1001, 0, 8)}, false); cov.hit("error-register-mapped-into-a-status-tpdo");
            w.onPdoTransmit = [this](const Frame &) { if (!nestReal) return; nestReal = false; nestFired = true; if (nestSet) COEmcySet(&N()->Emcy, (uint8_t)nestErr, nullptr); else COEmcyClr(&N()->Emcy, (uint8_t)nestErr); }; }
        NodeCfg cfg; cfg.nodeId = nodeId; cfg.freq = freq; cfg.tmrNum = 4;
        w.build(0, cfg, specs, {}, tbl); w.init(0); w.start(0);
        if (CONodeGetErr(N()) != CO_ERR_NONE) fail("setup/node-error", "node reports an error after initialisation");
    }
    bool cobValid() { return ((w.raw(0, 0x1014, 0) + nodeId) & 0x80000000u) == 0; }
    bool mayEmit() { return cobValid() && (m == M_PREOP || m == M_OP); }
    // frames of this operation vs expected list
    void checkFrames(size_t mk, const std::vector<Frame> &exp, const char *what) {
        std::vector<Frame> got; for (size_t i = mk; i < w.evs.size(); i++) { const Ev &e = w.evs[i]; if ((e.kind == EV_TX || e.kind == EV_TXFAIL) && e.f.id != 0x580u + nodeId && e.f.id != 0x700u + nodeId && !(tpdo1001 && e.f.id == 0x180u + nodeId)) { got.push_back(e.f); cov.frames_out++; } }
        if (got.size() != exp.size()) { std::string g = got.empty() ? "" : " first " + got[0].str(); fail(got.size() > exp.size() ? (exp.empty() && !mayEmit() ? (cobValid() ? "emcy/frame-in-wrong-nmt-state" : "emcy/frame-with-invalid-cobid") : "emcy/unexpected-frame") : "emcy/missing-frame", std::to_string(got.size()) + " EMCY frames during " + what + ", expected " + std::to_string(exp.size()) + g + " (mode " + std::to_string(m) + ", 1014h " + hex(w.raw(0, 0x1014, 0)) + ")"); return; }
        for (size_t i = 0; i < got.size(); i++) if (!(got[i] == exp[i])) { fail(got[i].id != exp[i].id ? "emcy/frame-id" : got[i].d[2] != exp[i].d[2] ? "emcy/frame-register" : (got[i].d[0] != exp[i].d[0] || got[i].d[1] != exp[i].d[1]) ? "emcy/frame-code" : "emcy/frame-content", std::string("frame ") + std::to_string(i) + " during " + what + ": got " + got[i].str() + ", expected " + exp[i].str()); return; }
        cov.hit("frames-checked", exp.size());
    }
    Frame mkFrame(uint16_t code, const uint8_t *usr) { Frame f; f.id = 0x80u + nodeId; f.dlc = 8; f.d[0] = (uint8_t)code; f.d[1] = (uint8_t)(code >> 8); f.d[2] = reg(); if (usr) memcpy(f.d + 3, usr, 5); return f; }
    void invariants(const char *what) {
        if (!v.ok) return; w.cur = 0;
        uint8_t r = (uint8_t)w.raw(0, 0x1001, 0); if (r != reg()) { fail("emcy/register", "1001h = " + hex(r) + ", model " + hex(reg()) + " after " + what); return; }
        int c = COEmcyCnt(&N()->Emcy); if (c != cnt()) { fail("emcy/count", "COEmcyCnt = " + std::to_string(c) + ", model " + std::to_string(cnt()) + " after " + what); return; }
        for (size_t i = 0; i < act.size(); i++) if ((COEmcyGet(&N()->Emcy, (uint8_t)i) != 0) != act[i]) { fail("emcy/state", "COEmcyGet(" + std::to_string(i) + ") differs from the model after " + what); return; }
        uint32_t fill = w.raw(0, 0x1003, 0); if (fill != hist.size()) { fail("emcy/history-count", "1003h:0 = " + std::to_string(fill) + ", model " + std::to_string(hist.size()) + " after " + what); return; }
    }
    void op(const Op &o) {
        const std::string &k = o.k; if (k == "err") return;
        if (k == "cycles") {   // hundreds of activations without a history clear in between: every set / clear judged on its own, the history read back at the end (8 bit counters wrap at 256)
            int64_t cnt = std::min<int64_t>(o.arg(1), 600); cov.hit("long-run-of-activations"); if (cnt >= 256) { cov.hit("run-of-256-or-more-activations"); nontrivial = true; }
            for (int64_t i = 0; i < cnt && v.ok; i++) { Op st("set", {o.arg(0), (int64_t)(i & 1), (int64_t)(i * 7 & 0xFFFF)}); st.b = {(uint8_t)i, 2, 3, 4, 5}; op(st); if (v.ok) op(Op("clr", {o.arg(0)})); if (v.ok && (i % 64 == 63 || i + 1 == cnt)) for (int q = 0; q <= depth && v.ok; q += (depth > 16 && i + 1 != cnt) ? 17 : 1) op(Op("rd1003", {(int64_t)q})); }
            return; }
        size_t mk = w.mark(); if (pendingNest && (k == "set" || k == "clr")) { pendingNest = false; size_t e0 = (size_t)o.arg(0) % tbl.size(); if (e0 != nestErr) nestReal = true; }   // armed for exactly this operation, for another error than the one it handles
        std::vector<Frame> exp; bool frames = true;
        if (k == "set") {
            size_t e = (size_t)o.arg(0) % tbl.size(); bool usr = o.arg(1) != 0; CO_EMCY_USR u; u.Hist = (uint16_t)o.arg(2); for (int i = 0; i < 5; i++) u.Emcy[i] = i < (int)o.b.size() ? o.b[(size_t)i] : 0;
            bool was = act[e]; w.cur = 0; COEmcySet(&N()->Emcy, (uint8_t)e, usr ? &u : nullptr);
            if (!was) { act[e] = true; hist.insert(hist.begin(), (uint32_t)tbl[e].second | (usr ? (uint32_t)u.Hist << 16 : 0)); if ((int)hist.size() > depth) { hist.resize((size_t)depth); cov.hit("hist-wrap"); nontrivial = true; } if (mayEmit()) exp.push_back(mkFrame(tbl[e].second, usr ? u.Emcy : nullptr)); bool sib = false; for (size_t i = 0; i < act.size(); i++) if (i != e && act[i] && tbl[i].first == tbl[e].first) sib = true; if (sib) cov.hit("set-with-sibling-active"); if (tbl[e].first == 0) cov.hit("class-0-member"); if (!cobValid()) cov.hit("cobid-invalid-set"); }
            else cov.hit("set-already-active");
        }
        else if (k == "clr") { size_t e = (size_t)o.arg(0) % tbl.size(); bool was = act[e]; w.cur = 0; COEmcyClr(&N()->Emcy, (uint8_t)e); if (was) { bool sib = false; for (size_t i = 0; i < act.size(); i++) if (i != e && act[i] && tbl[i].first == tbl[e].first) sib = true; if (sib) { cov.hit("clear-with-sibling-active"); nontrivial = true; } act[e] = false; if (mayEmit()) exp.push_back(mkFrame(0, nullptr)); } else cov.hit("clear-inactive"); }
        else if (k == "reset") { bool silent = o.arg(0) != 0; w.cur = 0; COEmcyReset(&N()->Emcy, silent ? 1 : 0); for (size_t i = 0; i < act.size(); i++) if (act[i]) { act[i] = false; if (!silent && mayEmit()) exp.push_back(mkFrame(0, nullptr)); } cov.hit(silent ? "reset-silent" : "reset-loud"); }
        else if (k == "nmt") { uint8_t cs = (uint8_t)o.arg(0); deliver(Frame(0, 2, {cs, 0})); if (cs == 1) m = M_OP; else if (cs == 2) m = M_STOP; else if (cs == 128) m = M_PREOP; else if (cs == 129 || cs == 130) { m = M_PREOP; for (size_t i = 0; i < act.size(); i++) act[i] = false; cov.hit("nmt-reset"); } }
        else if (k == "restart") {   // the application restarts the stack on the same node memory: CONodeStop, CONodeInit, CONodeStart - a fresh start: no active error, register clear, empty history
            w.cur = 0; CONodeStop(N()); S().rx.clear(); w.setraw(0, 0x1001, 0, 0); for (int q = 0; q <= depth; q++) if (w.ospec(0, 0x1003, (uint8_t)q)) w.setraw(0, 0x1003, (uint8_t)q, 0);   /* the dictionary RAM belongs to the application: its start-up code re-initialises it, CONodeInit does not */
            w.init(0); w.start(0); (void)CONodeGetErr(N()); m = M_PREOP; for (size_t i = 0; i < act.size(); i++) act[i] = false; hist.clear(); cov.hit("restart-on-same-memory"); nontrivial = true; frames = false; }
        else if (k == "txemcy") { if (!tpdo1001) return; nestSet = o.arg(0) != 0; nestErr = (size_t)o.arg(1) % tbl.size(); pendingNest = true; return; }
        else if (k == "sendfail") { S().sendFail = (int)o.arg(0); cov.hit("F5-send-failure-armed"); return; }
        else if (k == "rd1001") { if (m != M_PREOP && m != M_OP) return; uint32_t val = 0; uint32_t ab = sdoRead(0x1001, 0, val); if (ab != 0 || val != reg()) fail("emcy/register-sdo", "SDO read of 1001h gives " + hex(val) + " (abort " + hex(ab) + "), model " + hex(reg())); }
        else if (k == "rd1003") {
            if (m != M_PREOP && m != M_OP) return; int sub = (int)o.arg(0) % (depth + 2); uint32_t val = 0; uint32_t ab = sdoRead(0x1003, (uint8_t)sub, val);
            if (sub == 0) { if (ab != 0 || val != hist.size()) fail("emcy/history-count-sdo", "SDO read of 1003h:0 gives " + std::to_string(val) + " (abort " + hex(ab) + "), model " + std::to_string(hist.size())); }
            else if (sub > depth) { if (ab != 0x06090011) fail("emcy/history-absent-sub", "read of 1003h:" + std::to_string(sub) + " (depth " + std::to_string(depth) + ") answered " + hex(ab)); }
            else if (sub > (int)hist.size()) { if (ab == 0) fail("emcy/history-beyond-fill-readable", "1003h:" + std::to_string(sub) + " readable (" + hex(val) + ") although only " + std::to_string(hist.size()) + " entries are recorded"); cov.hit("read-beyond-fill"); }
            else { if (ab != 0 || val != hist[(size_t)sub - 1]) fail("emcy/history-entry", "1003h:" + std::to_string(sub) + " reads " + hex(val) + " (abort " + hex(ab) + "), model " + hex(hist[(size_t)sub - 1]) + " (fill " + std::to_string(hist.size()) + ", depth " + std::to_string(depth) + ")"); cov.hit("history-entry-read"); }
        }
        else if (k == "wr1003") { if (m != M_PREOP && m != M_OP) return; uint8_t val = (uint8_t)o.arg(0); std::vector<uint8_t> img = w.image(0); uint32_t ab = sdoWrite(0x1003, 0, val, 1); if (val == 0) { if (ab != 0) fail("emcy/history-clear-refused", "write 0 to 1003h:0 refused with " + hex(ab)); else { hist.clear(); cov.hit("history-cleared"); } } else { if (ab == 0 || ab == 0xFFFFFFFFu) fail("emcy/history-nonzero-write-accepted", "write " + std::to_string(val) + " to 1003h:0 answered " + hex(ab)); else if (w.image(0) != img) fail("emcy/history-refused-write-changed", "refused write to 1003h:0 changed the dictionary"); cov.hit("history-nonzero-write"); } }
        else if (k == "w1014") { if (m != M_PREOP && m != M_OP) return; bool valid = o.arg(0) != 0; uint32_t nv = (0x80u + nodeId) | (valid ? 0 : 0x80000000u); uint32_t ab = sdoWrite(0x1014, 0, nv, 4); if (ab != 0) fail("emcy/cobid-write-refused", "valid-bit toggle of 1014h refused with " + hex(ab)); cov.hit(valid ? "cobid-validated" : "cobid-invalidated"); }
        safety();
        if (nestFired && v.ok) {   // the status TPDO went out inside this operation and its transmit callback set / cleared another emergency: a transition inside a transition. Order of the two frames and of the two history
            nestFired = false; cov.hit("emergency-set-or-cleared-from-inside-the-transmit-callback"); nontrivial = true;   // entries is the implementation's; the number of frames, the states, the register and the count are not
            bool trans = nestSet ? !act[nestErr] : act[nestErr]; bool emit = mayEmit(); act[nestErr] = nestSet; size_t n = 0; for (size_t i = mk; i < w.evs.size(); i++) { const Ev &e = w.evs[i]; if ((e.kind == EV_TX || e.kind == EV_TXFAIL) && e.f.id == 0x80u + nodeId) n++; }
            size_t want = exp.size() + (trans && emit ? 1 : 0); if (n != want) { fail(n > want ? "emcy/unexpected-frame" : "emcy/missing-frame", std::to_string(n) + " EMCY frames during " + k + " with a nested transition, expected " + std::to_string(want)); return; }
            frames = false; hist.clear(); uint32_t fill = 0; if (sdoRead(0x1003, 0, fill) == 0) for (uint32_t i = 1; i <= fill && i <= (uint32_t)depth; i++) { uint32_t e2 = 0; if (sdoRead(0x1003, (uint8_t)i, e2) == 0) hist.push_back(e2); }
        }
        nestReal = false;
        if (frames && v.ok) checkFrames(mk, exp, k.c_str());
        invariants(k.c_str());
    }
    Verdict run() {
        build();
        for (opi = 0; opi < (int)plan.ops.size() && v.ok; opi++) {
            const Op &o = plan.ops[(size_t)opi]; w.opIndex = (uint32_t)opi; cov.ops++;
            op(o); if (o.k == "err") continue;
            Hash h; h.str(o.k); h.u64((uint64_t)m); h.u64(reg()); h.u64(hist.size()); h.u64(cobValid()); h.u64((uint64_t)cnt()); cov.pairs.insert(h.h); trace.u64(h.h); Hash s2; s2.u64(reg()); s2.u64(hist.size()); s2.u64((uint64_t)cnt()); s2.u64((uint64_t)m); cov.states.insert(s2.h);
        }
        finish(); return v;
    }
};

Plan gen_emcy(Rng &r, bool thorough) {
    Plan p; p.cfg["nodeid"] = r.pick<int64_t>({1, 5, 127}); bool deep = r.chance(1, 25); p.cfg["depth"] = deep ? r.pick<int64_t>({129, 200, 254, 128}) : r.range(1, 8);   // CiA 301 allows up to 254 entries p.cfg["cobvalid"] = r.chance(5, 6);
    bool tp = r.chance(1, 5); p.cfg["tpdo1001"] = tp;
    int ne = r.chance(1, 5) ? (int)r.pick<int64_t>({9, 17, 25, 32}) : (int)r.range(1, 6); bool shared = r.chance(1, 2);   // tables that span several bytes of the error storage (builds with a small CO_EMCY_N cut them)
    for (int i = 0; i < ne; i++) p.ops.push_back(Op("err", {shared ? r.pick<int64_t>({1, 1, 2, 0, 4}) : r.range(0, 7), (int64_t)(0x1000 * (1 + r.below(15)) + r.below(256))}));
    int n = (int)r.range(3, thorough ? 60 : 30);
    for (int i = 0; i < n; i++) {
        int c = (int)r.below(24);
        if (c < 8) { Op s("set", {(int64_t)r.below((uint32_t)ne), (int64_t)r.below(2), (int64_t)r.below(0x10000)}); for (int j = 0; j < 5; j++) s.b.push_back(r.byte()); p.ops.push_back(s); }
        else if (c < 13) p.ops.push_back(Op("clr", {(int64_t)r.below((uint32_t)ne)}));
        else if (c == 13) p.ops.push_back(r.chance(1, 4) ? Op("restart") : Op("reset", {(int64_t)r.below(2)}));
        else if (c == 14) p.ops.push_back(Op("nmt", {r.pick<int64_t>({1, 2, 128, 128, 129, 130})}));
        else if (c == 15) p.ops.push_back(Op("rd1001"));
        else if (c < 20) p.ops.push_back(Op("rd1003", {deep ? (int64_t)r.below(256) : (int64_t)r.below(10)}));
        else if (c == 20) p.ops.push_back(Op("wr1003", {r.chance(1, 2) ? 0 : r.range(1, 255)}));
        else if (c < 23) p.ops.push_back(Op("w1014", {(int64_t)r.below(2)}));
        else if (tp && r.chance(1, 2)) { p.ops.push_back(Op("nmt", {1})); p.ops.push_back(Op("txemcy", {(int64_t)r.below(2), (int64_t)r.below((uint32_t)ne)})); if (r.chance(1, 2)) p.ops.push_back(Op("set", {(int64_t)r.below((uint32_t)ne), 0, 0})); else p.ops.push_back(Op("clr", {(int64_t)r.below((uint32_t)ne)})); }
        else p.ops.push_back(Op("sendfail", {r.range(1, 2)}));
        if (r.chance(1, 300)) p.ops.push_back(Op("cycles", {(int64_t)r.below((uint32_t)ne), r.pick<int64_t>({130, 255, 256, 257, 300, 520})}));
    }
    if (deep) p.ops.push_back(Op("cycles", {(int64_t)r.below((uint32_t)ne), r.pick<int64_t>({300, 520, 600})}));   // the ring wraps, then every sub-index is read back
    return p;
}
Reg r15({"emcy", "C15", gen_emcy, [](const Plan &p, Cov &c, bool vb) { EmcyRun x(p, c, vb); return x.run(); }, nullptr, nullptr});

} // namespace
} // namespace sim
