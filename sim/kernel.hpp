// cosim kernel: PRNG, plan data model, JSON i/o, hashing, verdicts, coverage counters.
// Everything a run does is a pure function of (Plan, code under test).
#pragma once
#include <cstdint>
#include <cstdio>
#include <cstdlib>
#include <cstring>
#include <string>
#include <vector>
#include <map>
#include <set>
#include <functional>
#include <algorithm>

namespace sim {

// ---------------------------------------------------------------- PRNG (splitmix64 / xoshiro-lite)
static inline uint64_t splitmix64(uint64_t &x) {
    uint64_t z = (x += 0x9E3779B97F4A7C15ull);
    z = (z ^ (z >> 30)) * 0xBF58476D1CE4E5B9ull;
    z = (z ^ (z >> 27)) * 0x94D049BB133111EBull;
    return z ^ (z >> 31);
}
static inline uint64_t mix3(uint64_t a, uint64_t b, uint64_t c) {
    uint64_t s = a * 0x9E3779B97F4A7C15ull + 0x1234567;
    splitmix64(s); s ^= b * 0xC2B2AE3D27D4EB4Full; splitmix64(s); s ^= c * 0x165667B19E3779F9ull;
    return splitmix64(s);
}
struct Rng {
    uint64_t s;
    explicit Rng(uint64_t seed = 1) : s(seed) {}
    uint64_t next() { return splitmix64(s); }
    // uniform in [0,n)
    uint32_t below(uint32_t n) { return n ? (uint32_t)(next() % n) : 0; }
    // uniform in [lo,hi]
    int64_t range(int64_t lo, int64_t hi) { return lo + (int64_t)(next() % (uint64_t)(hi - lo + 1)); }
    bool chance(uint32_t num, uint32_t den) { return below(den) < num; }
    template <class T> const T &pick(const std::vector<T> &v) { return v[below((uint32_t)v.size())]; }
    template <class T> T pick(std::initializer_list<T> l) { auto it = l.begin(); std::advance(it, below((uint32_t)l.size())); return *it; }
    // weighted index
    int weighted(const std::vector<int> &w) {
        int tot = 0; for (int x : w) tot += x;
        int r = (int)below((uint32_t)tot);
        for (size_t i = 0; i < w.size(); i++) { if (r < w[i]) return (int)i; r -= w[i]; }
        return (int)w.size() - 1;
    }
    uint8_t byte() { return (uint8_t)next(); }
};

// ---------------------------------------------------------------- hashing (FNV-1a 64)
struct Hash {
    uint64_t h = 1469598103934665603ull;
    void u8(uint8_t b) { h ^= b; h *= 1099511628211ull; }
    void u64(uint64_t v) { for (int i = 0; i < 8; i++) u8((uint8_t)(v >> (8 * i))); }
    void str(const std::string &s) { for (char c : s) u8((uint8_t)c); u8(0); }
    void bytes(const uint8_t *p, size_t n) { for (size_t i = 0; i < n; i++) u8(p[i]); }
};

// ---------------------------------------------------------------- plan
struct Op {
    std::string k;              // kind
    std::vector<int64_t> a;     // integer arguments
    std::vector<uint8_t> b;     // byte payload
    Op() {}
    Op(std::string kk, std::vector<int64_t> aa = {}, std::vector<uint8_t> bb = {}) : k(std::move(kk)), a(std::move(aa)), b(std::move(bb)) {}
    int64_t arg(size_t i, int64_t def = 0) const { return i < a.size() ? a[i] : def; }
};
struct Plan {
    std::string property;       // Cxx
    std::string scenario;
    std::string build;          // "A" or "B"
    uint64_t seed = 0;          // seed this plan was generated from (informational)
    std::map<std::string, int64_t> cfg;
    std::vector<Op> ops;
    int64_t c(const std::string &k, int64_t def = 0) const { auto it = cfg.find(k); return it == cfg.end() ? def : it->second; }
};

// ---------------------------------------------------------------- JSON (minimal)
struct J {
    enum T { NUL, NUM, STR, ARR, OBJ, BOOL } t = NUL;
    int64_t n = 0; bool neg_big = false; std::string s; std::vector<J> a; std::vector<std::pair<std::string, J>> o;
    const J *get(const std::string &k) const { for (auto &p : o) if (p.first == k) return &p.second; return nullptr; }
};
struct JParser {
    const char *p, *e; bool ok = true;
    JParser(const std::string &s) : p(s.data()), e(s.data() + s.size()) {}
    void ws() { while (p < e && (*p == ' ' || *p == '\n' || *p == '\t' || *p == '\r')) p++; }
    J parse() {
        ws(); J j; if (p >= e) { ok = false; return j; }
        if (*p == '{') { j.t = J::OBJ; p++; ws(); if (p < e && *p == '}') { p++; return j; }
            while (ok) { ws(); J k = parse(); if (k.t != J::STR) { ok = false; break; } ws(); if (p >= e || *p != ':') { ok = false; break; } p++;
                J v = parse(); j.o.push_back({k.s, v}); ws(); if (p < e && *p == ',') { p++; continue; } if (p < e && *p == '}') { p++; break; } ok = false; }
        } else if (*p == '[') { j.t = J::ARR; p++; ws(); if (p < e && *p == ']') { p++; return j; }
            while (ok) { J v = parse(); j.a.push_back(v); ws(); if (p < e && *p == ',') { p++; continue; } if (p < e && *p == ']') { p++; break; } ok = false; }
        } else if (*p == '"') { j.t = J::STR; p++; while (p < e && *p != '"') { if (*p == '\\' && p + 1 < e) { p++; char c = *p; if (c == 'n') j.s += '\n'; else if (c == 't') j.s += '\t'; else j.s += c; } else j.s += *p; p++; } if (p < e) p++; else ok = false;
        } else if (*p == 't' && e - p >= 4 && !strncmp(p, "true", 4)) { j.t = J::BOOL; j.n = 1; p += 4;
        } else if (*p == 'f' && e - p >= 5 && !strncmp(p, "false", 5)) { j.t = J::BOOL; j.n = 0; p += 5;
        } else if (*p == 'n' && e - p >= 4 && !strncmp(p, "null", 4)) { j.t = J::NUL; p += 4;
        } else { j.t = J::NUM; char *end; j.n = strtoll(p, &end, 10); if (end == p) ok = false; p = end; if (p < e && (*p == '.' || *p == 'e' || *p == 'E')) { while (p < e && (isdigit((unsigned char)*p) || *p == '.' || *p == 'e' || *p == 'E' || *p == '+' || *p == '-')) p++; } }
        return j;
    }
};
static inline std::string jesc(const std::string &s) {
    std::string r; for (char c : s) { if (c == '"' || c == '\\') { r += '\\'; r += c; } else if (c == '\n') r += "\\n"; else if (c == '\t') r += "\\t"; else if ((unsigned char)c < 0x20) r += ' '; else r += c; } return r;
}
static inline std::string hexstr(const std::vector<uint8_t> &b) {
    static const char *d = "0123456789abcdef"; std::string r; for (uint8_t x : b) { r += d[x >> 4]; r += d[x & 15]; } return r;
}
static inline std::vector<uint8_t> unhex(const std::string &s) {
    std::vector<uint8_t> r; auto v = [](char c) { return c <= '9' ? c - '0' : (c | 32) - 'a' + 10; };
    for (size_t i = 0; i + 1 < s.size(); i += 2) r.push_back((uint8_t)(v(s[i]) << 4 | v(s[i + 1]))); return r;
}
static inline std::string op_json(const Op &o) {
    std::string r = "{\"k\":\"" + jesc(o.k) + "\",\"a\":[";
    for (size_t i = 0; i < o.a.size(); i++) { if (i) r += ','; r += std::to_string(o.a[i]); }
    r += "]"; if (!o.b.empty()) r += ",\"b\":\"" + hexstr(o.b) + "\""; r += "}"; return r;
}
static inline std::string plan_json(const Plan &p, bool pretty = true) {
    std::string nl = pretty ? "\n" : "";
    std::string r = "{\"property\":\"" + jesc(p.property) + "\",\"scenario\":\"" + jesc(p.scenario) + "\",\"build\":\"" + jesc(p.build) + "\",\"seed\":" + std::to_string((int64_t)(p.seed & 0x7fffffffffffffffull)) + "," + nl + "\"cfg\":{";
    bool first = true; for (auto &kv : p.cfg) { if (!first) r += ','; first = false; r += "\"" + jesc(kv.first) + "\":" + std::to_string(kv.second); }
    r += "}," + nl + "\"ops\":[" + nl;
    for (size_t i = 0; i < p.ops.size(); i++) { r += op_json(p.ops[i]); if (i + 1 < p.ops.size()) r += ","; r += nl; }
    r += "]}" + nl; return r;
}
static inline bool plan_from_json(const std::string &txt, Plan &p) {
    JParser jp(txt); J j = jp.parse(); if (!jp.ok || j.t != J::OBJ) return false;
    if (auto x = j.get("property")) p.property = x->s;
    if (auto x = j.get("scenario")) p.scenario = x->s;
    if (auto x = j.get("build")) p.build = x->s;
    if (auto x = j.get("seed")) p.seed = (uint64_t)x->n;
    if (auto x = j.get("cfg")) for (auto &kv : x->o) p.cfg[kv.first] = kv.second.n;
    if (auto x = j.get("ops")) for (auto &oj : x->a) { Op o; if (auto k = oj.get("k")) o.k = k->s; if (auto a = oj.get("a")) for (auto &v : a->a) o.a.push_back(v.n); if (auto b = oj.get("b")) o.b = unhex(b->s); p.ops.push_back(o); }
    return true;
}
static inline uint64_t plan_hash(const Plan &p) { Hash h; h.str(plan_json(p, false)); return h.h; }
static inline std::string read_file(const std::string &path) {
    FILE *f = fopen(path.c_str(), "rb"); if (!f) return ""; std::string s; char buf[65536]; size_t n; while ((n = fread(buf, 1, sizeof buf, f)) > 0) s.append(buf, n); fclose(f); return s;
}
static inline bool write_file(const std::string &path, const std::string &s) {
    FILE *f = fopen(path.c_str(), "wb"); if (!f) return false; fwrite(s.data(), 1, s.size(), f); fclose(f); return true;
}

// ---------------------------------------------------------------- verdict and coverage
struct Verdict {
    bool ok = true;
    std::string sig;        // property/rule/site – what minimisation preserves and KNOWN_FINDINGS matches
    std::string detail;     // expected vs observed
    int op = -1;            // index of the failing operation
    uint64_t loghash = 0;
    void fail(const std::string &s, const std::string &d, int o) { if (ok) { ok = false; sig = s; detail = d; op = o; } }
};
// Counters a run contributes to the evidence. All are measured, none constant.
struct Cov {
    std::map<std::string, uint64_t> cnt;        // named counters: faults fired, probes hit, ops by kind
    std::set<uint64_t> states;                  // distinct abstract states
    std::set<uint64_t> pairs;                   // distinct (state, op-kind)
    std::set<uint64_t> traces;                  // distinct abstract traces of non-trivial runs
    uint64_t runs = 0, nontrivial = 0, ops = 0, frames_in = 0, frames_out = 0;
    double sim_seconds = 0;
    void hit(const std::string &k, uint64_t n = 1) { cnt[k] += n; }
};

// A scenario: generator + executor.
struct Scenario {
    std::string name, property;
    std::function<Plan(Rng &, bool thorough)> gen;
    std::function<Verdict(const Plan &, Cov &, bool verbose)> run;
    // optional: per-plan sweep expansion (fault_enumeration): given a base plan, produce variants
    std::function<std::vector<Plan>(const Plan &)> sweep;   // variants 2.. (may execute the clean plan to count fault points)
    std::function<Plan(const Plan &)> clean;                 // variant 1: the plan with all injected faults removed (no execution)
};
std::vector<Scenario> &registry();
struct Reg { Reg(const Scenario &s) { registry().push_back(s); } };

} // namespace sim
