// C19 (csdo): the real SDO client against a simulated (mis)behaving server actor.
#include "node_env.hpp"

namespace sim {
namespace {

enum Beh { B_CONFORM = 0, B_ABORT, B_SILENT, B_WRONG_TOGGLE, B_WRONG_MUX, B_SIZE_MISMATCH, B_EXTRA_SEGMENTS, B_EXP_FOR_SEG, B_SEG_FOR_EXP, B_GARBAGE_CMD, B_N };
enum Expect { E_NONE = 0, E_OK, E_CODE, E_ANY };

struct CsdoRun : NodeEnv {
    static const uint8_t SRV = 5;       // node id of the remote server
    struct Client {
        bool busy = false; bool upload = false; uint32_t size = 0; uint8_t *buf = nullptr; std::vector<uint8_t> user; uint16_t idx = 0; uint8_t sub = 0; uint32_t tmoTicks = 0; uint64_t lastTx = 0; int slotsBefore = 0;
        // server actor
        int beh = 0; int k = 0; uint32_t param = 0; int step = 0; std::vector<uint8_t> sdata, recv; uint8_t toggle = 0; uint32_t off = 0; bool malformed = false; int extra = 0; bool srvDone = false;
        Expect exp = E_NONE; uint32_t expCode = 0; int callbacks = 0; bool pendingFrame = false; Frame pending;
    };
    Client c[CO_CSDO_N]; std::vector<int> appTimers; int nCsdo = CO_CSDO_N; int m = 2;
    CsdoRun(const Plan &p, Cov &cv, bool vb) : NodeEnv(p, cv, vb) { self = this; }
    bool tight = false;
    static void appCb(void *) {}
    // completion callback: logs; when armed by 'cbtimer' the application starts a (long, periodic) timer of its own from inside it - e.g. a retry timer after a failed transfer
    static void doneCb(CO_CSDO *csdo, uint16_t index, uint8_t sub, uint32_t code) { if (!W) return; W->ev(EV_CSDODONE, (int64_t)(csdo - W->S().node->CSdo), ((int64_t)index << 8) | sub, (int64_t)code);
        CsdoRun *g = self; if (g && g->cbRetry > 0 && code != 0) { g->cbRetry--; static uint8_t retryBuf[4]; CO_ERR e = COCSdoRequestUpload(csdo, CO_DEV(index, sub), retryBuf, 4, doneCb, 20); (void)CONodeGetErr(W->S().node); g->cov.hit(e == CO_ERR_NONE ? "retry-from-the-completion-callback-accepted" : "retry-from-the-completion-callback-refused-busy"); }   // a retry from inside the callback: the client is still busy there (also inside a reset) - it must be refused and leave nothing behind
        if (g && !g->tight && g->cbTimerArmed > 0 && g->appTimers.size() < 5) {   /* capacity is assumed by the property: not in the tight configuration */ g->cbTimerArmed--; int16_t id = COTmrCreate(&W->S().node->Tmr, 1000000, 1000000, appCb, nullptr); if (id >= 0) { g->appTimers.push_back(id); for (auto &x : g->c) x.slotsBefore++; g->cov.hit(code == 0x05040000 ? "timer-created-from-the-completion-callback-of-a-time-out" : "timer-created-from-the-completion-callback"); g->nontrivial = true; } else (void)CONodeGetErr(W->S().node); } }
    static CsdoRun *self; int cbTimerArmed = 0; int cbRetry = 0;
    uint32_t txId(int n) { return 0x600u + SRV + (uint32_t)n * 0x10; }
    uint32_t rxId(int n) { return 0x580u + SRV + (uint32_t)n * 0x10; }
    void build() {
        nodeId = 1; freq = (uint32_t)plan.c("freq", 1000);
        add_mandatory(specs, 1);
        for (int n = 0; n < nCsdo; n++) { uint16_t i = (uint16_t)(0x1280 + n); add_u8(specs, i, 0, CO_OBJ_D___R_, 3); add_u32(specs, i, 1, CO_OBJ_D___R_, 0x600u + (uint32_t)n * 0x10); add_u32(specs, i, 2, CO_OBJ_D___R_, 0x580u + (uint32_t)n * 0x10); add_u8(specs, i, 3, CO_OBJ_D___R_, SRV); }
        add_typed(specs, T_HBPROD, 0x1017, 0, CO_OBJ_____RW, 0);
        tight = plan.c("tight", 0) != 0; NodeCfg cfg; cfg.nodeId = nodeId; cfg.freq = freq; cfg.tmrNum = tight ? (uint16_t)nCsdo : 8; if (tight) cov.hit("F15-timer-pool-without-spare-slot");   // tight: one slot per client and nothing else (no application timers)
        w.build(0, cfg, specs); w.init(0); w.start(0);
        if (CONodeGetErr(N()) != CO_ERR_NONE) fail("setup/node-error", "node reports an error after initialisation");
    }
    void freeBuf(Client &x) { if (x.buf) { free(x.buf); x.buf = nullptr; } }
    ~CsdoRun() { self = nullptr; for (auto &x : c) freeBuf(x); }

    // ---- completion callbacks and client frames of one operation
    void harvest(size_t mk, const char *what) {
        int completed = 0;
        for (size_t i = mk; i < w.evs.size() && v.ok; i++) {
            const Ev &e = w.evs[i];
            if (e.kind == EV_CSDODONE) {
                int n = (int)e.a; if (n < 0 || n >= nCsdo) { fail("csdo/callback-unknown-client", "completion callback for an unknown client"); return; }
                Client &x = c[n]; uint32_t code = (uint32_t)e.c;
                if (!x.busy) { fail(x.callbacks ? "csdo/second-callback" : "csdo/callback-without-request", std::string("completion callback (code ") + hex(code) + ") without a transfer in progress during " + what); return; }
                if ((uint16_t)(e.b >> 8) != x.idx || (uint8_t)e.b != x.sub) { fail("csdo/callback-mux", "completion callback names " + hex((uint32_t)e.b) + ", request was " + hex((uint32_t)x.idx << 8 | x.sub)); return; }
                x.callbacks++;
                // what the model expects
                bool timedOut = x.tmoTicks > 0 && e.tick >= x.lastTx + x.tmoTicks;
                if (x.exp == E_OK) { if (code != 0) { fail("csdo/completed-with-error", std::string(x.upload ? "upload" : "download") + " of " + std::to_string(x.size) + " bytes completed by the server but reported with code " + hex(code)); return; } }
                else if (x.exp == E_CODE) { if (code != x.expCode) { fail("csdo/abort-code", "server aborted with " + hex(x.expCode) + ", callback reports " + hex(code)); return; } }
                else if (x.exp == E_ANY) { /* malformed answer: any code */ }
                else if (timedOut) { if (code != 0x05040000) { fail("csdo/timeout-code", "time-out reported with code " + hex(code)); return; } if (e.tick != x.lastTx + x.tmoTicks) { fail("csdo/timeout-late", "time-out at tick " + std::to_string(e.tick) + ", due " + std::to_string(x.lastTx + x.tmoTicks)); return; } cov.hit("timeout"); nontrivial = true; }
                else { fail(code == 0x05040000 ? "csdo/early-timeout" : "csdo/unexpected-completion", std::string("transfer finished with code ") + hex(code) + " at tick " + std::to_string(e.tick) + " during " + what + " (last client frame at " + std::to_string(x.lastTx) + ", time-out " + std::to_string(x.tmoTicks) + " ticks, server step " + std::to_string(x.step) + ")"); return; }
                if (code == 0) {
                    if (x.upload) { if (x.exp == E_OK && memcmp(x.buf, x.sdata.data(), x.size) != 0) { uint32_t b = 0; while (x.buf[b] == x.sdata[b]) b++; fail("csdo/upload-data", "user buffer byte " + std::to_string(b) + " of " + std::to_string(x.size) + " is " + hex(x.buf[b]) + ", server sent " + hex(x.sdata[b])); return; } }
                    else if (x.exp == E_OK && x.recv != x.user) { fail("csdo/download-data", "server received " + std::to_string(x.recv.size()) + " bytes, user buffer has " + std::to_string(x.user.size()) + (x.recv.size() == x.user.size() ? " (content differs)" : "")); return; }
                    cov.hit(x.upload ? "upload-ok" : "download-ok");
                }
                x.busy = false; x.pendingFrame = false; freeBuf(x);
                // nothing left behind
                completed++;
            } else if (e.kind == EV_TX || e.kind == EV_TXFAIL) {
                cov.frames_out++; int n = -1; for (int q = 0; q < nCsdo; q++) if (e.f.id == txId(q)) n = q;
                if (n < 0) { if (e.f.id == 0x700u + nodeId) continue; fail("csdo/foreign-tx", "unexpected frame " + e.f.str() + " during " + what); return; }
                Client &x = c[n];
                if (e.f.dlc != 8) { fail("csdo/request-dlc", e.f.str()); return; }
                if (e.f.d[0] == 0x80) { // client abort: only for a time-out, with the request's multiplexer
                    if (e.f.u32(4) == 0x05040000) { if (e.f.u16(1) != x.idx || e.f.d[3] != x.sub) { fail("csdo/abort-frame-mux", e.f.str()); return; } cov.hit("abort-frame-on-timeout"); }
                    x.pendingFrame = false; continue;
                }
                if (!x.busy && !(x.callbacks && false)) { fail("csdo/frame-while-idle", "client frame " + e.f.str() + " without a transfer in progress during " + what); return; }
                x.pending = e.f; x.pendingFrame = true; x.lastTx = e.tick;
            }
        }
        // nothing left behind: only application timers and the time-outs of transfers still running hold timer slots
        if (completed && v.ok) { int now2 = w.tmrUsedActions(0); int expSlots = (int)appTimers.size(); for (int q = 0; q < nCsdo; q++) if (c[q].busy) expSlots++; if (now2 != expSlots) fail("csdo/timer-left-behind", std::to_string(now2) + " timer slots in use after a completion, " + std::to_string(expSlots) + " belong to application timers and running transfers"); }
    }
    // ---- the server actor: one client frame in, zero or one frame out
    void serverStep(int n, uint32_t delay, bool lag = false) {
        Client &x = c[n]; if (!x.pendingFrame) return; Frame f = x.pending; x.pendingFrame = false; x.step++;
        uint8_t cmd = f.d[0]; Frame r; r.id = rxId(n); r.dlc = 8; bool respond = true; bool terminal = false; Expect te = E_NONE; uint32_t tcode = 0;
        std::string ctx = " [client frame " + f.str() + ", step " + std::to_string(x.step) + "]";
        // server-side checks of what the client sent (only while the dialogue is conforming)
        if (!x.malformed) {
            if ((cmd & 0xE0) == 0x40) { if (!x.upload || x.step != 1 || cmd != 0x40 || f.u16(1) != x.idx || f.d[3] != x.sub) { fail("csdo/bad-upload-request", ctx); return; } }
            else if ((cmd & 0xE0) == 0x20 && x.step == 1) { if (x.upload || f.u16(1) != x.idx || f.d[3] != x.sub) { fail("csdo/bad-download-request", ctx); return; }
                if (cmd & 2) { uint32_t nb = (cmd & 1) ? 4 - ((cmd >> 2) & 3) : 4; if (!(cmd & 1) || nb != x.size || x.size > 4) { fail("csdo/expedited-size", "expedited download announces " + std::to_string(nb) + " bytes, user buffer has " + std::to_string(x.size) + ctx); return; } x.recv.assign(f.d + 4, f.d + 4 + nb); }
                else { if (!(cmd & 1) || f.u32(4) != x.size) { fail("csdo/announced-size", "segmented download announces " + std::to_string(f.u32(4)) + " bytes, user buffer has " + std::to_string(x.size) + ctx); return; } } }
            else if ((cmd & 0xE0) == 0x60) { if (!x.upload || ((cmd >> 4) & 1) != x.toggle) { fail("csdo/upload-toggle", "segment request with toggle " + std::to_string((cmd >> 4) & 1) + ", expected " + std::to_string(x.toggle) + ctx); return; } }
            else if ((cmd & 0xE0) == 0x00) { if (x.upload || ((cmd >> 4) & 1) != x.toggle) { fail("csdo/download-toggle", "segment with toggle " + std::to_string((cmd >> 4) & 1) + ", expected " + std::to_string(x.toggle) + ctx); return; }
                uint32_t nb = 7 - ((cmd >> 1) & 7); bool last = cmd & 1; uint32_t rem = x.size - (uint32_t)x.recv.size(); uint32_t want = rem > 7 ? 7 : rem;
                if (nb != want) { fail("csdo/segment-length", "segment carries " + std::to_string(nb) + " bytes, " + std::to_string(rem) + " remain" + ctx); return; }
                if (last != (rem <= 7)) { fail("csdo/last-segment-marking", std::string("c bit ") + (last ? "set" : "clear") + " with " + std::to_string(rem) + " bytes remaining" + ctx); return; }
                x.recv.insert(x.recv.end(), f.d + 1, f.d + 1 + nb); }
            else { fail("csdo/unknown-client-command", ctx); return; }
        }
        // conforming response
        if (cmd == 0x40) { if (x.size <= 4) { r.d[0] = (uint8_t)(0x43 | (4 - x.size) << 2); memcpy(r.d + 4, x.sdata.data(), x.size); terminal = true; te = E_OK; } else { r.d[0] = 0x41; r.d[4] = (uint8_t)x.size; r.d[5] = (uint8_t)(x.size >> 8); r.d[6] = (uint8_t)(x.size >> 16); r.d[7] = (uint8_t)(x.size >> 24); } r.d[1] = f.d[1]; r.d[2] = f.d[2]; r.d[3] = f.d[3]; }
        else if ((cmd & 0xE0) == 0x20) { r.d[0] = 0x60; r.d[1] = f.d[1]; r.d[2] = f.d[2]; r.d[3] = f.d[3]; if (cmd & 2) { terminal = true; te = E_OK; } }
        else if ((cmd & 0xE0) == 0x60) { uint32_t rem = x.size - x.off; uint32_t nb = rem > 7 ? 7 : rem; bool last = rem <= 7; if (x.beh == B_EXTRA_SEGMENTS && x.step >= x.k && x.extra < (int)x.param) { if (last) { x.extra++; last = false; x.malformed = true; } } r.d[0] = (uint8_t)(x.toggle << 4 | (7 - nb) << 1 | (last ? 1 : 0)); memcpy(r.d + 1, x.sdata.data() + x.off, nb); if (!(x.beh == B_EXTRA_SEGMENTS && x.malformed && !last && rem <= 7)) x.off += nb; x.toggle ^= 1; if (last) { terminal = true; te = x.malformed ? E_ANY : E_OK; } }
        else if ((cmd & 0xE0) == 0x00) { r.d[0] = (uint8_t)(0x20 | x.toggle << 4); x.toggle ^= 1; if (cmd & 1) { terminal = true; te = E_OK; } }
        // deviations
        bool dev = x.step == x.k;
        if (x.beh == B_SILENT && x.step >= x.k) { respond = false; terminal = false; cov.hit("server-silent"); }
        else if (x.beh == B_ABORT && dev) { r = Frame(rxId(n), 8, {0x80, f.d[1], f.d[2], f.d[3], (uint8_t)x.param, (uint8_t)(x.param >> 8), (uint8_t)(x.param >> 16), (uint8_t)(x.param >> 24)}); if (x.step > 1) { r.d[1] = (uint8_t)x.idx; r.d[2] = (uint8_t)(x.idx >> 8); r.d[3] = x.sub; } terminal = true; te = E_CODE; tcode = x.param; cov.hit("server-abort"); }
        else if (x.beh == B_WRONG_TOGGLE && dev && x.step > 1) { r.d[0] ^= 0x10; x.malformed = true; terminal = true; te = E_ANY; cov.hit("server-wrong-toggle"); }
        else if (x.beh == B_WRONG_MUX && dev && x.step == 1) { r.d[1] ^= 1; x.malformed = true; te = E_ANY; terminal = true; cov.hit("server-wrong-mux"); }
        else if (x.beh == B_SIZE_MISMATCH && x.step == 1 && x.upload && x.size > 4) { uint32_t s2 = x.size + x.param; r.d[4] = (uint8_t)s2; r.d[5] = (uint8_t)(s2 >> 8); r.d[6] = (uint8_t)(s2 >> 16); r.d[7] = (uint8_t)(s2 >> 24); x.malformed = true; te = E_ANY; terminal = true; cov.hit("server-size-mismatch"); }
        else if (x.beh == B_EXP_FOR_SEG && x.step == 1 && x.upload && x.size > 4) { r.d[0] = 0x43; x.malformed = true; te = E_ANY; terminal = true; cov.hit("server-expedited-for-segmented"); }
        else if (x.beh == B_SEG_FOR_EXP && x.step == 1 && x.upload && x.size <= 4) { r.d[0] = 0x41; r.d[4] = (uint8_t)x.size; r.d[5] = r.d[6] = r.d[7] = 0; x.malformed = true; te = E_ANY; terminal = true; cov.hit("server-segmented-for-expedited"); }
        else if (x.beh == B_GARBAGE_CMD && dev) { r.d[0] = (uint8_t)x.param; if (r.d[0] == 0x80) r.d[0] = 0xE0; x.malformed = true; te = E_ANY; terminal = true; cov.hit("server-garbage-command"); }
        if (x.malformed) te = E_ANY;
        if (!respond) return;
        if (delay) { uint32_t d = delay; if (x.tmoTicks && d >= x.tmoTicks) d = x.tmoTicks - 1; if (d) { size_t mk = w.mark(); w.tick(0, d); harvest(mk, "delay before the server's answer"); cov.hit("server-late-answer"); if (!x.busy || !v.ok) return; } }
        if (terminal || x.malformed) { x.exp = te; x.expCode = tcode; } else x.exp = x.malformed ? E_ANY : E_NONE;
        // lagged regime: the tick on which the time-out falls due is served (COTmrService) but not yet processed when the answer is handled;
        // the answer is in time - the client refreshes or ends its time-out - and the deferred COTmrProcess must not report a time-out
        bool lagged = false;
        if (lag && x.tmoTicks && m != 4) { uint64_t due = x.lastTx + x.tmoTicks; if (due > now()) { uint64_t d = due - now(); if (d > 1) { size_t mk0 = w.mark(); w.tick(0, d - 1); harvest(mk0, "ticks before the lagged answer"); if (!x.busy || !v.ok) return; } w.cur = 0; w.isr(0); lagged = true; cov.hit("answer-between-tick-service-and-processing"); nontrivial = true; } }
        size_t mk = w.mark(); uint8_t *bufp = x.buf; (void)bufp; w.rx(0, r); w.canproc(0); cov.frames_in++; if (lagged) w.process(0); safety(); harvest(mk, "server answer");
        if (!v.ok) return;
        if (m == 4) { x.exp = x.malformed ? E_ANY : E_NONE; return; }   // STOPPED: the SDO client does not see the answer; the transfer runs into its time-out
        if (x.busy && terminal && te != E_ANY) { fail(te == E_OK ? "csdo/no-completion-after-final-answer" : "csdo/no-completion-after-abort", std::string("the server's final answer ") + r.str() + " did not complete the transfer"); return; }
        if (x.busy) x.exp = x.malformed ? E_ANY : E_NONE;
    }
    void request(const Op &o) {
        int n = (int)(o.arg(0) % nCsdo); Client &x = c[n]; bool upload = o.arg(1) != 0; uint32_t size = (uint32_t)o.arg(2); if (size < 1) size = 1; if (size > 2000) size = 2000; uint32_t tmo = (uint32_t)o.arg(3); if (tmo < 1) tmo = 1; uint32_t tmoTicks = (uint32_t)((uint64_t)tmo * freq / 1000); if (tmoTicks == 0) { tmo = (1000 + freq - 1) / freq; tmoTicks = (uint32_t)((uint64_t)tmo * freq / 1000); }
        w.cur = 0; CO_CSDO *cs = COCSdoFind(N(), (uint8_t)n); if (!cs) { fail("csdo/find", "COCSdoFind returned NULL for a configured client"); return; }
        uint16_t idx = (uint16_t)(0x2000 + (o.arg(6) & 0xFF)); uint8_t sub = (uint8_t)(o.arg(6) >> 8);
        uint8_t *buf = (uint8_t *)malloc(size); uint32_t seed = (uint32_t)o.arg(7); for (uint32_t i = 0; i < size; i++) buf[i] = upload ? 0xEE : (uint8_t)(seed * 7 + i * 13 + (i >> 8));
        int slots = w.tmrUsedActions(0); size_t mk = w.mark();
        CO_ERR e = upload ? COCSdoRequestUpload(cs, CO_DEV(idx, sub), buf, size, doneCb, tmo) : COCSdoRequestDownload(cs, CO_DEV(idx, sub), buf, size, doneCb, tmo);
        if (x.busy) { free(buf); cov.hit("request-while-busy"); nontrivial = true; if (e != CO_ERR_SDO_BUSY) { fail("csdo/busy-not-refused", "request while busy returned " + std::to_string((int)e)); return; } for (size_t i = mk; i < w.evs.size(); i++) if (w.evs[i].kind == EV_TX || w.evs[i].kind == EV_CSDODONE) { fail("csdo/busy-request-side-effect", "a refused request transmitted a frame or completed something"); return; } return; }
        if (e != CO_ERR_NONE) { free(buf); fail("csdo/request-refused", "request on an idle client returned " + std::to_string((int)e)); return; }
        freeBuf(x); Client fresh; x = fresh; x.busy = true; x.upload = upload; x.size = size; x.buf = buf; x.idx = idx; x.sub = sub; x.tmoTicks = tmoTicks; x.slotsBefore = slots; x.lastTx = now();
        x.beh = (int)(o.arg(4) % B_N); x.k = (int)o.arg(5) % 16 + 1; x.param = (uint32_t)o.arg(8);
        if (x.beh == B_ABORT && x.param == 0) x.param = 0x06020000; if (x.beh == B_EXTRA_SEGMENTS) x.param = x.param % 3 + 1; if (x.beh == B_SIZE_MISMATCH && x.param == 0) x.param = 1;
        if (upload) { x.sdata.resize(size + 32); for (uint32_t i = 0; i < size + 32; i++) x.sdata[i] = (uint8_t)(seed * 11 + i * 5 + (i >> 8) * 3 + 1); } else x.user.assign(buf, buf + size);
        cov.hit(upload ? "request-upload" : "request-download"); cov.hit(std::string("size-class-") + (size <= 4 ? "exp" : size <= 7 ? "one-seg" : size < 256 ? "small" : size < 520 ? "around-256-512" : "large"));
        harvest(mk, "request");
        if (v.ok && !x.pendingFrame) fail("csdo/no-request-frame", "an accepted request did not transmit the initiate frame");
    }
    void op(const Op &o) {
        const std::string &k = o.k; size_t mk = w.mark();
        if (k == "req") request(o);
        else if (k == "step") serverStep((int)(o.arg(0) % nCsdo), (uint32_t)o.arg(1));
        else if (k == "lagstep") serverStep((int)(o.arg(0) % nCsdo), 0, true);
        else if (k == "run") { int n = (int)(o.arg(0) % nCsdo); int guard = 400; while (v.ok && c[n].busy && c[n].pendingFrame && guard-- > 0) serverStep(n, 0); }
        else if (k == "tick") { w.tick(0, (uint64_t)o.arg(0)); harvest(mk, "tick"); }
        else if (k == "unsol") { int n = (int)(o.arg(0) % nCsdo); Frame r(rxId(n), 8, o.b); bool wasBusy = c[n].busy;
            // an abort that names another object is not an answer to this transfer (e.g. a late abort of an earlier one): an expedited transfer must go on unaffected
            bool foreignAbort = wasBusy && r.d[0] == 0x80 && (r.u16(1) != c[n].idx || r.d[3] != c[n].sub) && c[n].size <= 4 && !c[n].malformed;
            if (foreignAbort) { cov.hit("foreign-abort-during-expedited-transfer"); nontrivial = true; } else if (wasBusy) { c[n].malformed = true; c[n].exp = E_ANY; } w.rx(0, r); w.canproc(0); cov.frames_in++; harvest(mk, "unsolicited server frame"); cov.hit(wasBusy ? "unsolicited-while-busy" : "unsolicited-while-idle"); }
        else if (k == "cbtimer") { cbTimerArmed = (int)(o.arg(0) % 3) + 1; }
        else if (k == "cbretry") { cbRetry = (int)(o.arg(0) % 3) + 1; }
        else if (k == "apptmr") { w.cur = 0; if (tight) return; if (o.arg(0) && appTimers.size() >= 5) return;   /* capacity is assumed by the property: 8 slots = 5 application timers + 2 clients + 1 spare */
            if (o.arg(0)) { int16_t id = COTmrCreate(&N()->Tmr, (uint32_t)o.arg(1), (uint32_t)o.arg(2) + 1, appCb, nullptr); if (id >= 0) { appTimers.push_back(id); for (auto &x : c) x.slotsBefore++; } } else if (!appTimers.empty()) { (void)COTmrDelete(&N()->Tmr, (int16_t)appTimers.back()); appTimers.pop_back(); for (auto &x : c) x.slotsBefore--; } }
        else if (k == "nmt") { uint8_t cs = (uint8_t)o.arg(0); for (auto &x : c) if (x.busy && (cs == 129 || cs == 130)) { x.exp = E_ANY; cov.hit("reset-while-busy"); nontrivial = true; } w.rx(0, Frame(0, 2, {cs, 0})); w.canproc(0); harvest(mk, "NMT command");
            if ((cs == 129 || cs == 130) && v.ok) { for (int n = 0; n < nCsdo; n++) if (c[n].busy) { fail("csdo/busy-survives-reset", "the transfer in progress was neither completed nor aborted by the NMT reset (no completion callback)"); return; } } if (cs == 2) m = 4; else if (cs == 1) m = 3; else m = 2; }
        safety();
    }
    Verdict run() {
        build();
        for (opi = 0; opi < (int)plan.ops.size() && v.ok; opi++) {
            const Op &o = plan.ops[(size_t)opi]; w.opIndex = (uint32_t)opi; cov.ops++;
            op(o);
            Hash h; h.str(o.k); for (auto &x : c) { h.u64(x.busy); h.u64(x.upload); h.u64((uint64_t)x.beh); h.u64(x.size <= 4 ? 0 : x.size < 256 ? 1 : 2); h.u64(x.malformed); } cov.pairs.insert(h.h); trace.u64(h.h); cov.states.insert(h.h);
        }
        // liveness: once the faults stop every transfer completes within its time-out
        if (v.ok) { opi = (int)plan.ops.size(); for (int n = 0; n < nCsdo && v.ok; n++) if (c[n].busy && m != 4) { size_t mk = w.mark(); if (c[n].exp == E_NONE) c[n].exp = c[n].malformed ? E_ANY : E_NONE; w.tick(0, (uint64_t)c[n].tmoTicks + 2); harvest(mk, "closing drain"); if (v.ok && c[n].busy) fail("csdo/never-completes", "transfer still in progress " + std::to_string(c[n].tmoTicks + 2) + " ticks after the last frame (time-out " + std::to_string(c[n].tmoTicks) + ")"); } }
        if (v.ok) { bool anyBusy = false; for (auto &x : c) anyBusy |= x.busy; if (!anyBusy && w.tmrUsedActions(0) != (int)appTimers.size()) fail("csdo/timer-left-behind", std::to_string(w.tmrUsedActions(0)) + " timer slots in use at the end, " + std::to_string(appTimers.size()) + " application timers"); }
        finish(); return v;
    }
};

Plan gen_csdo(Rng &r, bool thorough) {
    Plan p; uint32_t f = r.pick<uint32_t>({1000, 1000, 10000, 100}); p.cfg["freq"] = f; p.cfg["tight"] = r.chance(1, 4);
    int transfers = (int)r.range(1, thorough ? 8 : 5);
    for (int t = 0; t < transfers; t++) {
        int64_t n = r.below(2); bool up = r.chance(1, 2);
        int64_t size = r.chance(1, 3) ? r.range(1, 8) : r.chance(1, 3) ? r.pick<int64_t>({13, 14, 15, 255, 256, 257, 262, 263, 264, 511, 512, 519, 520}) : r.chance(1, 2) ? r.range(1, 300) : r.range(1, 2000);
        int64_t tmo = r.pick<int64_t>({10, 20, 50, 100, 500}); int64_t beh = r.chance(1, 2) ? 0 : (int64_t)r.below(B_N); int64_t k = r.below(6);
        if (r.chance(1, 6)) p.ops.push_back(Op("apptmr", {1, r.range(1, 30), r.range(0, 20)}));
        if (r.chance(1, 5)) p.ops.push_back(Op("cbtimer", {(int64_t)r.below(3)}));
        if (r.chance(1, 5)) p.ops.push_back(Op("cbretry", {(int64_t)r.below(3)}));
        p.ops.push_back(Op("req", {n, up ? 1 : 0, size, tmo, beh, k, (int64_t)(r.below(4) | r.below(3) << 8), (int64_t)r.below(1000), r.pick<int64_t>({0, 0x06020000, 0x08000000, 0x05040001, 1, 2, 0x60, 0x41, 0x00, 0xFF})}));
        int mode = (int)r.below(10);
        if (mode < 5) p.ops.push_back(Op("run", {n}));
        else if (mode < 8) { int steps = (int)r.range(0, 12); for (int i = 0; i < steps; i++) { int cc = (int)r.below(8); if (cc < 5 && r.chance(1, 5)) { if (r.chance(1, 2)) p.ops.push_back(Op("apptmr", {1, r.range(1, 300), r.range(0, 20)})); p.ops.push_back(Op("lagstep", {n})); } else if (cc < 5) p.ops.push_back(Op("step", {n, r.chance(1, 3) ? r.range(1, (int64_t)tmo * f / 1000 + 2) : 0})); else if (cc == 5) p.ops.push_back(Op("tick", {r.range(1, 5)})); else if (cc == 6) p.ops.push_back(Op("req", {n, (int64_t)r.below(2), r.range(1, 20), 10, 0, 0, 0, 0, 0})); else p.ops.push_back(Op("req", {1 - n, (int64_t)r.below(2), r.range(1, 40), 50, 0, 0, 1, 3, 0})); } if (r.chance(1, 2)) p.ops.push_back(Op("run", {n})); }
        else if (mode == 8) { int steps = (int)r.range(0, 4); for (int i = 0; i < steps; i++) p.ops.push_back(Op("step", {n, 0})); p.ops.push_back(Op("nmt", {r.pick<int64_t>({130, 129, 130, 2, 1})})); }
        else { std::vector<uint8_t> b; for (int j = 0; j < 8; j++) b.push_back(r.byte()); if (r.chance(1, 2)) b[0] = r.pick<uint8_t>({0x80, 0x80, 0x60, 0x43, 0x41, 0x00, 0x20}); if (b[0] == 0x80 && r.chance(1, 2)) { b[1] = 0x55; b[2] = 0x21; b[3] = 9; } p.ops.push_back(Op("unsol", {n}, b)); p.ops.push_back(Op("run", {n})); }
        // idle gap around the previous transfer's time-out, then possibly the next transfer
        p.ops.push_back(Op("tick", {r.chance(1, 2) ? r.range(0, 3) : (int64_t)tmo * f / 1000 + r.range(-2, 2)}));
        if (r.chance(1, 8)) { std::vector<uint8_t> b; for (int j = 0; j < 8; j++) b.push_back(r.byte()); p.ops.push_back(Op("unsol", {n}, b)); }
        if (r.chance(1, 8)) p.ops.push_back(Op("run", {1 - n}));
    }
    return p;
}
CsdoRun *CsdoRun::self = nullptr;
Reg r19({"csdo", "C19", gen_csdo, [](const Plan &p, Cov &c, bool vb) { CsdoRun x(p, c, vb); return x.run(); }, nullptr, nullptr});

} // namespace
} // namespace sim
