// C16 (sync): SYNC consumer and producer against 1005h / 1006h.
#include "node_env.hpp"

namespace sim {
namespace {

enum { M_INVALID = 0, M_INIT = 1, M_PREOP = 2, M_OP = 3, M_STOP = 4 };

struct SyncRun : NodeEnv {
    int m = M_PREOP; uint32_t cobid = 0x80, cycle = 0; bool producing = false; uint64_t next = 0; uint32_t period = 0;
    uint8_t tType = 1; uint32_t cnt = 0; uint32_t prevId = 0;
    SyncRun(const Plan &p, Cov &c, bool vb) : NodeEnv(p, c, vb) {}
    uint32_t minUs() { uint32_t t = freq <= 10000 ? (10000 + freq - 1) / freq : 1; return t * 100; }
    uint32_t ticksOf(uint32_t us) { return (uint32_t)(((uint64_t)(us / 100) * freq) / 10000); }
    bool resolvable(uint32_t us) { return us != 0 && us >= minUs() && ticksOf(us) > 0; }
    void activate() { if ((cobid & 0x40000000u) && resolvable(cycle)) { producing = true; period = ticksOf(cycle); next = now() + period; } else producing = false; }
    void build() {
        nodeId = 1; freq = (uint32_t)plan.c("freq", 1000); cobid = (uint32_t)plan.c("cobid", 0x80); cycle = (uint32_t)plan.c("cycle", 0); tType = (uint8_t)plan.c("ttype", 1); if (tType < 1 || tType > 240) tType = 1;
        if ((cobid & 0x40000000u) && !resolvable(cycle)) cobid &= ~0x40000000u;
        add_mandatory(specs, 1);
        add_typed(specs, T_SYNCID, 0x1005, 0, CO_OBJ_____RW, cobid); add_typed(specs, T_SYNCCYCLE, 0x1006, 0, CO_OBJ_____RW, cycle);
        add_tpdo(specs, 0, 0x40000181u, tType, 0, 0, {CO_LINK(0x2100, 1, 8)}, false);
        add_u8(specs, 0x2100, 0, CO_OBJ_D___R_, 1); add_u8(specs, 0x2100, 1, CO_OBJ____PRW, 0x5A);
        NodeCfg cfg; cfg.nodeId = nodeId; cfg.freq = freq; cfg.tmrNum = plan.c("tight", 0) ? 1 : 8; if (plan.c("tight", 0)) cov.hit("F15-timer-pool-without-spare-slot");   // tight: the SYNC producer is the only timer user and gets the only slot
        w.build(0, cfg, specs); w.init(0); activate(); w.start(0);
        if (CONodeGetErr(N()) != CO_ERR_NONE) fail("setup/node-error", "node reports an error after initialisation");
    }
    // produced SYNC frames of this operation against the reference schedule
    void checkProduced(size_t mark, uint64_t to, const char *what) {
        std::vector<uint64_t> exp, got; uint32_t id = cobid & 0x7FF;
        if (producing) { int guard = 0; while (next <= to) { if (m == M_PREOP || m == M_OP) exp.push_back(next); next += period; if (++guard > 60000) break; } }
        for (size_t i = mark; i < w.evs.size(); i++) { const Ev &e = w.evs[i]; if (e.kind != EV_TX && e.kind != EV_TXFAIL) continue;
            if (e.f.id == 0x581 || e.f.id == 0x701) continue;
            if (e.f.id == 0x181 && e.f.dlc == 1) { tpdoSeen++; continue; }
            if (e.f.dlc != 0 || e.f.id != id) { fail("sync/foreign-frame", std::string("unexpected frame ") + e.f.str() + " during " + what + " (SYNC identifier is " + hex(id) + ")"); return; }
            got.push_back(e.tick); }
        if (got != exp) {
            size_t i = 0; while (i < got.size() && i < exp.size() && got[i] == exp[i]) i++; char b[256];
            if (i < got.size() && (i >= exp.size() || got[i] < exp[i])) { snprintf(b, sizeof b, "unexpected SYNC at tick %llu during %s (%zu produced, %zu expected; producing=%d period=%u)", (unsigned long long)got[i], what, got.size(), exp.size(), producing, period); fail(exp.empty() ? "sync/produced-unexpected" : "sync/produced-shifted", b); }
            else { snprintf(b, sizeof b, "SYNC due at tick %llu missing during %s (%zu produced, %zu expected, period %u ticks)", (unsigned long long)exp[i], what, got.size(), exp.size(), period); fail("sync/produced-missing", b); }
        }
        cov.hit("produced-checked", exp.size());
    }
    int tpdoSeen = 0; uint32_t mcUs = 0; bool mcReal = false, mcHooked = false;
    void op(const Op &o) {
        size_t mk = w.mark(); const std::string &k = o.k; tpdoSeen = 0; int tpdoExp = -1;
        if (k == "sendfail") { S().sendFail = (int)(o.arg(0) % 4); cov.hit("F5-can-send-failure"); return; }   // the next n frames are refused by the CAN driver: attempts count, the schedule must not shift
        if (k == "lostsync") { uint32_t id = cobid & 0x7FF; if (o.arg(0)) S().readErr = 1; else S().readEmpty = 1; w.rx(0, Frame(id, 0, {})); w.canproc(0); S().rx.clear(); S().readErr = 0; S().readEmpty = 0; cov.hit("F6-can-read-error"); tpdoExp = 0; safety(); if (v.ok) checkProduced(mk, now(), "lost SYNC"); if (v.ok && tpdoSeen) fail("sync/tpdo-unexpected", "synchronous TPDO sent although the CAN driver delivered no SYNC"); return; }
        if (k == "tick") { w.tick(0, (uint64_t)o.arg(0)); if (producing) tpdoExp = -1; else tpdoExp = 0; }
        else if (k == "mcsync") { uint32_t us = (uint32_t)o.arg(0); if (us == 0 || !resolvable(us)) return; mcUs = us; mcReal = true;   // application code in CONmtModeChange(INIT): rewrites the communication cycle period when the node goes into a reset
            if (!mcHooked) { mcHooked = true; w.onModeChange = [this](int mode) { if (!mcReal || mode != CO_INIT) return; mcReal = false; (void)CODictWrLong(&N()->Dict, CO_DEV(0x1006, 0), mcUs); (void)CONodeGetErr(N()); }; } return; }
        else if (k == "nmt") { uint8_t cs = (uint8_t)o.arg(0); deliver(Frame(0, 2, {cs, 0})); int old = m; if (cs == 1) m = M_OP; else if (cs == 2) m = M_STOP; else if (cs == 128) m = M_PREOP; else if (cs == 129 || cs == 130) { m = M_PREOP; if (mcUs) { cycle = mcUs; mcUs = 0; cov.hit("1006-written-from-the-mode-change-callback-of-a-reset"); nontrivial = true; if (w.raw(0, 0x1006, 0) != cycle) { fail("sync/1006-stored", "1006h holds " + std::to_string(w.raw(0, 0x1006, 0)) + " after the application wrote " + std::to_string(cycle) + " in the mode-change callback"); return; } } activate(); cov.hit("reset"); } if (m == M_OP && old != M_OP) cnt = 0; tpdoExp = 0; }
        else if (k == "sync") {
            int sel = (int)o.arg(0); uint32_t id = cobid & 0x7FF; uint32_t fid = sel == 0 ? id : sel == 1 ? id + 1 : sel == 2 ? id - 1 : prevId ? prevId : id ^ 0x100; fid &= 0x7FF; if (fid == 0 || fid == 0x601 || fid == 0x7E5) return;
            bool isSync = fid == id && (m == M_PREOP || m == M_OP);
            Fx fx = deliver(Frame(fid, (uint8_t)(o.arg(1) & 1 ? 1 : 0), {(uint8_t)o.arg(1)}));
            if (isSync) { if (fx.appRx) fail("sync/consumed-and-passed-on", "SYNC also handed to the application callback"); cov.hit("sync-received"); if (m == M_OP) { cnt++; if (cnt == tType) { tpdoExp = 1; cnt = 0; } else tpdoExp = 0; } else tpdoExp = 0; }
            else { if (m == M_STOP ? fx.appRx > 1 : fx.appRx != 1) fail("sync/near-miss-consumed", "frame " + hex(fid) + " is not the SYNC (" + hex(id) + ", mode " + std::to_string(m) + ") but was handed to the application callback " + std::to_string(fx.appRx) + " times"); tpdoExp = 0; cov.hit(fid == id ? "sync-in-stopped" : "near-miss-frame"); }
            if (producing) tpdoExp = tpdoExp == 1 ? 1 : -1;
        }
        else if (k == "w1006") {
            if (m != M_PREOP && m != M_OP) return; uint32_t us = (uint32_t)o.arg(0); bool on = (cobid & 0x40000000u) != 0;
            uint32_t ab = sdoWrite(0x1006, 0, us, 4); uint32_t st = w.raw(0, 0x1006, 0); nontrivial = true; tpdoExp = 0;
            if (!on) { if (ab != 0 || st != us) { fail("sync/1006-refused-while-off", "write of " + std::to_string(us) + " us while not producing answered " + hex(ab)); return; } cycle = us; cov.hit("w1006-off"); }
            else if (us == 0) { if (st == 0 && ab == 0) { cycle = 0; producing = false; } else if (st != cycle) fail("sync/1006-stored", "1006h holds " + std::to_string(st) + " after a refused write"); cov.hit("w1006-zero-while-producing"); }
            else if (!resolvable(us)) { if (ab != 0x06090030) fail("sync/unresolvable-not-refused", "period " + std::to_string(us) + " us (minimum " + std::to_string(minUs()) + ") answered " + hex(ab)); else if (st != cycle) fail("sync/1006-rollback", "1006h holds " + std::to_string(st) + " after the refused write, previous value " + std::to_string(cycle)); cov.hit("w1006-unresolvable-refused"); }
            else { if (ab != 0 || st != us) { fail("sync/1006-valid-refused", "resolvable period " + std::to_string(us) + " us refused with " + hex(ab) + " while producing"); return; } cycle = us; activate(); cov.hit("w1006-retime"); }
        }
        else if (k == "w1005") {
            if (m != M_PREOP && m != M_OP) return; uint32_t nid = (uint32_t)o.arg(0) & 0x400007FFu; if ((nid & 0x7FF) == 0 || (nid & 0x7FF) == 0x601 || (nid & 0x7FF) == 0x581 || (nid & 0x7FF) == 0x181 || (nid & 0x7FF) == 0x701 || (nid & 0x7FF) == 0x7E5) return;
            bool on = (cobid & 0x40000000u) != 0; uint32_t ab = sdoWrite(0x1005, 0, nid, 4); uint32_t st = w.raw(0, 0x1005, 0); nontrivial = true; tpdoExp = 0;
            if (on) {
                if ((nid & 0x7FF) != (cobid & 0x7FF)) { if (ab != 0x06090030 || st != cobid) fail("sync/id-change-while-producing", "CAN-ID change while producing answered " + hex(ab) + ", stored " + hex(st)); cov.hit("w1005-id-change-refused"); }
                else { if (ab != 0 || st != nid) { fail("sync/1005-refused", "write " + hex(nid) + " refused with " + hex(ab)); return; } if (!(nid & 0x40000000u)) { producing = false; cov.hit("w1005-stop"); } cobid = nid; }
            } else {
                if (nid & 0x40000000u) {
                    if (cycle == 0) { if (st == nid && ab == 0) { prevId = cobid & 0x7FF; cobid = nid; producing = false; } else if (st != cobid) fail("sync/1005-stored", "1005h changed by a refused write"); cov.hit("w1005-start-with-zero-period"); }
                    else if (!resolvable(cycle)) { if (ab != 0x06090030 || st != cobid) fail("sync/start-unresolvable-not-refused", "start of production with unresolvable period answered " + hex(ab)); cov.hit("w1005-start-unresolvable"); }
                    else { if (ab != 0 || st != nid) { fail("sync/1005-start-refused", "start of production refused with " + hex(ab) + " (period " + std::to_string(cycle) + " us)"); return; } prevId = cobid & 0x7FF; cobid = nid; activate(); cov.hit("w1005-start"); }
                } else { if (ab != 0 || st != nid) { fail("sync/1005-refused", "write " + hex(nid) + " refused with " + hex(ab)); return; } if ((nid & 0x7FF) != (cobid & 0x7FF)) { prevId = cobid & 0x7FF; cov.hit("w1005-consumer-id-change"); } cobid = nid; }
            }
        }
        safety();
        if (v.ok) checkProduced(mk, now(), k.c_str());
        if (v.ok && tpdoExp >= 0 && tpdoSeen != tpdoExp) fail(tpdoExp ? "sync/tpdo-missing" : "sync/tpdo-unexpected", "synchronous TPDO (type " + std::to_string(tType) + ") sent " + std::to_string(tpdoSeen) + " times during " + k + ", expected " + std::to_string(tpdoExp));
    }
    Verdict run() {
        build();
        for (opi = 0; opi < (int)plan.ops.size() && v.ok; opi++) {
            const Op &o = plan.ops[(size_t)opi]; w.opIndex = (uint32_t)opi; cov.ops++;
            op(o);
            Hash h; h.str(o.k); h.u64((uint64_t)m); h.u64(producing); h.u64((cobid >> 30) & 1); h.u64(cycle == 0 ? 0 : resolvable(cycle) ? 2 : 1); cov.pairs.insert(h.h); trace.u64(h.h); Hash s2 = h; cov.states.insert(s2.h);
        }
        if (v.ok && w.tmrUsedActions(0) != (producing ? 1 : 0)) fail("sync/timer-leak", std::to_string(w.tmrUsedActions(0)) + " timer slots in use, producing=" + std::to_string(producing));
        finish(); return v;
    }
};

Plan gen_sync(Rng &r, bool thorough) {
    Plan p; uint32_t f = r.pick<uint32_t>({1000, 1000, 10000, 100, 2000, 100000, 3000, 1500, 300, 7000}); p.cfg["freq"] = f; p.cfg["tight"] = r.chance(1, 4); uint32_t minus = (f <= 10000 ? (10000 + f - 1) / f : 1) * 100;
    auto cyc = [&]() -> int64_t { int c = (int)r.below(10); if (c == 0) return 0; if (c == 1) return (int64_t)r.range(1, (int64_t)minus - 1 > 0 ? (int64_t)minus - 1 : 1); if (c == 2) return minus; if (c == 3) return (int64_t)minus * r.range(1, 50) + (r.chance(1, 3) ? 50 : 0); if (c == 4) return r.pick<int64_t>({7000000, 10000000, 6553600, 6553500}); return (int64_t)minus * r.pick<int64_t>({1, 2, 3, 5, 10, 20, 100}); };
    p.cfg["cobid"] = (r.chance(1, 2) ? 0x40000000ll : 0) | (r.chance(1, 5) ? 0x80000000ll : 0) | r.pick<int64_t>({0x80, 0x80, 0x90, 0x100}); p.cfg["cycle"] = cyc(); p.cfg["ttype"] = r.range(1, 3);
    int n = (int)r.range(3, thorough ? 50 : 25);
    for (int i = 0; i < n; i++) {
        int c = (int)r.below(20);
        if (c < 6) p.ops.push_back(Op("tick", {r.chance(1, 10) ? (int64_t)((uint64_t)r.pick<int64_t>({7, 10}) * f) : r.chance(1, 2) ? r.range(1, 5) : (int64_t)((uint64_t)minus * (uint64_t)r.pick<int64_t>({1, 2, 3, 5, 10, 20, 100}) * f / 1000000) + (int64_t)r.below(2)}));
        else if (c < 10) p.ops.push_back(Op("sync", {(int64_t)(r.chance(3, 5) ? 0 : r.range(1, 3)), (int64_t)r.below(4)}));
        else if (c < 13 && r.chance(1, 6)) { p.ops.push_back(Op("mcsync", {cyc()})); p.ops.push_back(Op("nmt", {r.pick<int64_t>({129, 130})})); }
        else if (c < 13) p.ops.push_back(Op("w1006", {cyc()}));
        else if (c < 17) p.ops.push_back(Op("w1005", {(r.chance(1, 2) ? 0x40000000ll : 0) | (r.chance(1, 4) ? 0x80000000ll : 0) | r.pick<int64_t>({0x80, 0x80, 0x90, 0x100, 0x81})}));   // bit 31 of 1005h is a don't-care bit of CiA 301: stored as written, without any effect
        else if (r.chance(1, 4)) p.ops.push_back(r.chance(1, 2) ? Op("sendfail", {r.range(1, 3)}) : Op("lostsync", {(int64_t)r.below(2)}));
        else p.ops.push_back(Op("nmt", {r.pick<int64_t>({1, 1, 2, 128, 129, 130})}));
    }
    return p;
}
Reg r16({"sync", "C16", gen_sync, [](const Plan &p, Cov &c, bool vb) { SyncRun x(p, c, vb); return x.run(); }, nullptr, nullptr});

} // namespace
} // namespace sim
