#!/usr/bin/env python3
"""mkmut.py <Cxx|benign> <name> <file-relative-to-repo> <<< 'OLD\n====\nNEW'   -> mutants/<Cxx>/<name>.patch (unified diff, -p1)"""
import sys, os, difflib
V = os.path.dirname(os.path.abspath(__file__))
grp, name, rel = sys.argv[1:4]
spec = sys.stdin.read()
src = open("/repo/" + rel, newline="").read(); dst = src
nl = "\r\n" if "\r\n" in src else "\n"
for part in spec.split("\n@@@@\n"):
    old, new = part.split("\n====\n") if "\n====\n" in part else (part.split("\n====")[0], "")
    old = old.rstrip("\n").replace("\n", nl); new = new.rstrip("\n").replace("\n", nl)
    if dst.count(old) != 1: sys.exit("OLD text occurs %d times in %s:\n%s" % (dst.count(old), rel, old))
    dst = dst.replace(old, new)
d = "".join(difflib.unified_diff(src.splitlines(True), dst.splitlines(True), "a/" + rel, "b/" + rel))
os.makedirs(os.path.join(V, "mutants", grp), exist_ok=True)
hdr = "".join("# " + l + "\n" for l in sys.argv[4:])
open(os.path.join(V, "mutants", grp, name + ".patch"), "w", newline="").write(hdr + d)
print("wrote mutants/%s/%s.patch (%d lines)" % (grp, name, d.count("\n")))
