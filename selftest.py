#!/usr/bin/env python3
"""selftest.py - prove the machinery: determinism and sensitivity.

  selftest.py determinism [Cxx ...]   every scenario twice, at 4 and at 16 workers; (plan hash, log hash, verdict) must be identical
  selftest.py mutants [Cxx ...] [--tier quick|thorough]
                                      apply each mutants/<Cxx>/*.patch (and seeded/<id>/patch.diff) to a scratch copy of /repo's
                                      sources, run the property's check with VERIF_REPO pointing there, expect exit 1
  selftest.py valgrind [N]            every scenario, both builds, N (300) plans each on the unsanitised build under valgrind memcheck
  selftest.py benign                  apply mutants/benign/*.patch, every listed check must stay at exit 0
"""
import sys, os, subprocess, shutil, glob, json, hashlib, tempfile, time
V = os.path.dirname(os.path.abspath(__file__))
sys.path.insert(0, V)
from props import PROPS

def scratch_repo(patch):
    d = tempfile.mkdtemp(prefix="cosim-mut-", dir="/tmp")
    subprocess.check_call(["rsync", "-a", "--exclude", "_build", "--exclude", ".git", "/repo/src", d + "/"])
    r = subprocess.run(["patch", "--binary", "-p1", "-d", d, "-i", patch, "--no-backup-if-mismatch"], stdout=subprocess.PIPE, stderr=subprocess.STDOUT, text=True)
    if r.returncode != 0:
        shutil.rmtree(d); raise RuntimeError("patch %s does not apply:\n%s" % (patch, r.stdout))
    return d

def cleanup(d):
    key = "r" + hashlib.sha1(d.encode()).hexdigest()[:10]
    for p in (d, os.path.join(V, "build", key), os.path.join(V, "out", key)):
        shutil.rmtree(p, ignore_errors=True)

def run_check(pid, tier, repo, seed="1"):
    env = dict(os.environ, VERIF_REPO=repo, VERIF_SEED=seed)
    ev = os.path.join(V, "evidence", pid + ".json"); keep = open(ev).read() if os.path.exists(ev) else None
    t0 = time.time()
    r = subprocess.run([sys.executable, os.path.join(V, "check.py"), pid, tier], env=env, stdout=subprocess.PIPE, stderr=subprocess.PIPE, text=True)
    if keep is not None: open(ev, "w").write(keep)   # evidence must describe /repo, not a mutant
    return r.returncode, r.stdout, r.stderr, time.time() - t0

def mutants(args):
    tier = "quick"; sel = []
    i = 0
    while i < len(args):
        if args[i] == "--tier": tier = args[i + 1]; i += 2
        else: sel.append(args[i]); i += 1
    todo = []
    for p in sorted(glob.glob(os.path.join(V, "mutants", "C*", "*.patch"))):
        pid = os.path.basename(os.path.dirname(p)); todo.append((pid, p))
    for m in sorted(glob.glob(os.path.join(V, "seeded", "*", "meta.json"))):
        meta = json.load(open(m)); todo.append((meta["property"], os.path.join(os.path.dirname(m), "patch.diff")))
    if sel: todo = [(a, b) for a, b in todo if a in sel or os.path.basename(os.path.dirname(b)) in sel or os.path.basename(b) in sel]
    missed = 0
    for pid, patch in todo:
        if pid not in PROPS: print("SKIP %s (property %s not claimed)" % (patch, pid)); continue
        try: d = scratch_repo(patch)
        except RuntimeError as e: missed += 1; print("NOAPPLY   %s %s" % (pid, os.path.relpath(patch, V))); continue
        try:
            rc, so, se, dt = run_check(pid, tier, d)
            sigs = sorted(set(l.split("sig=", 1)[1].split()[0] for l in so.splitlines() if "sig=" in l))
            tag = "CAUGHT" if rc == 1 else ("MACHINERY" if rc == 2 else "MISSED")
            if rc != 1: missed += 1
            print("%-9s %s %-60s %5.1fs %s" % (tag, pid, os.path.relpath(patch, V), dt, " ".join(sigs)[:160]))
            if rc == 2: print(se[-1500:])
        finally:
            cleanup(d)
    return 1 if missed else 0

def benign(args):
    bad = 0
    for p in sorted(glob.glob(os.path.join(V, "mutants", "benign", "*.patch"))):
        props = [l.split(":", 1)[1].split() for l in open(p) if l.startswith("# checks:")]
        props = props[0] if props else sorted(PROPS)
        d = scratch_repo(p)
        try:
            for pid in props:
                if pid not in PROPS: continue
                rc, so, se, dt = run_check(pid, "quick", d)
                print("%-9s %s %-50s %5.1fs" % ("QUIET" if rc == 0 else "ALARM", pid, os.path.relpath(p, V), dt))
                if rc != 0: bad += 1; print(so[-1200:])
        finally:
            cleanup(d)
    return 1 if bad else 0

def determinism(args):
    sel = args or sorted(PROPS)
    subprocess.check_call(["make", "-C", os.path.join(V, "sim"), "-j16"], stdout=subprocess.DEVNULL)
    bad = 0
    out = os.path.join(V, "out", "det"); os.makedirs(out, exist_ok=True)
    for pid in sel:
        sc = PROPS[pid]["scenario"]; runs = "2000"
        for b in PROPS[pid].get("builds", ["A", "B"]):
            tr = []
            for k, jobs in enumerate(("4", "16", "7")):
                t = os.path.join(out, "%s-%s-%d.trace" % (pid, b, k))
                subprocess.run([os.path.join(V, "build", "default", "cosim_" + b), "run", sc, "--seed", "77", "--runs", runs, "--jobs", jobs, "--trace", t, "--outdir", out],
                               stdout=subprocess.DEVNULL, stderr=subprocess.DEVNULL)
                tr.append(open(t).read())
            same = tr[0] == tr[1] == tr[2] and len(tr[0]) > 0
            print("%s build %s: %d result lines x3 %s" % (pid, b, tr[0].count("\n"), "identical" if same else "DIFFER"))
            if not same: bad += 1
    shutil.rmtree(out, ignore_errors=True)
    return 1 if bad else 0

def valgrind(args):
    """every scenario, both builds, N plans each on the unsanitised build under memcheck: neither harness nor stack may use an uninitialised value"""
    runs = args[0] if args else "300"
    vg = "OPT=-O1 -gdwarf-4 -DCOSIM_VALGRIND"
    subprocess.check_call(["make", "-C", os.path.join(V, "sim"), "KEY=default-vg", "SAN=", vg, "-j16"], stdout=subprocess.DEVNULL)
    out = os.path.join(V, "out", "vgself"); shutil.rmtree(out, ignore_errors=True); os.makedirs(out)
    env = dict(os.environ, COSIM_VGLOG=os.path.join(out, "log"))
    procs = []
    for pid in sorted(PROPS):
        for b in PROPS[pid].get("builds", ["A", "B"]):
            cmd = ["valgrind", "-q", "--trace-children=yes", "--error-exitcode=0", "--log-file=" + os.path.join(out, "log") + ".%p",
                   os.path.join(V, "build", "default-vg", "cosim_" + b), "run", PROPS[pid]["scenario"], "--seed", "7", "--runs", runs, "--jobs", "1", "--outdir", os.path.join(out, pid + b)]
            procs.append((pid, b, subprocess.Popen(cmd, env=env, stdout=subprocess.PIPE, stderr=subprocess.PIPE, text=True)))
            while sum(1 for _, _, p in procs if p.poll() is None) >= 14: time.sleep(0.2)
    bad = 0
    for pid, b, p in procs:
        so, se = p.communicate()
        ok = p.returncode == 0
        print("%s build %s: %s plans under memcheck: %s" % (pid, b, runs, "clean" if ok else "REPORTS (exit %d)" % p.returncode))
        if not ok: bad += 1; print(so[-1500:])
    shutil.rmtree(out, ignore_errors=True)
    return 1 if bad else 0

if __name__ == "__main__":
    if len(sys.argv) < 2: print(__doc__); sys.exit(2)
    sys.exit({"mutants": mutants, "benign": benign, "determinism": determinism, "valgrind": valgrind}[sys.argv[1]](sys.argv[2:]))
