#!/bin/bash
# Repository baseline with the verification guard OFF: build what links, run ctest, expect the 250 stable tests to pass.
cmake --build /repo/_build -- -k 0 >/dev/null 2>&1
n=$(ctest --test-dir /repo/_build -j8 --timeout 900 2>/dev/null | grep -c " Passed ")
echo "baseline: $n tests passed (expected 250)"
[ "$n" -eq 250 ]
