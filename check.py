#!/usr/bin/env python3
"""check.py <Cxx> <quick|thorough>  - decide one property by deterministic simulation.

Rebuilds the stack from $VERIF_REPO (default /repo, current working tree) in two configurations, replays the
committed regression plans of the property, runs a seeded search on both builds, writes evidence/<Cxx>.json.
Exit 0: property held on everything explored (known findings are listed as KNOWN-FINDING lines);
exit 1: at least one 'VIOLATION property=<id> replay=<path>' line; exit 2: machinery failure."""
import sys, os, json, subprocess, time, hashlib, glob, fcntl

V = os.path.dirname(os.path.abspath(__file__))
sys.path.insert(0, V)
from props import PROPS, COMMON_ASSUMPTIONS, COMPONENTS

def main():
    if len(sys.argv) < 3 or sys.argv[1] not in PROPS or sys.argv[2] not in ("quick", "thorough"):
        print("usage: check.py <%s> <quick|thorough>" % "|".join(sorted(PROPS)), file=sys.stderr); return 2
    pid, tier = sys.argv[1], sys.argv[2]
    P = PROPS[pid]
    seed = int(os.environ.get("VERIF_SEED", "1") or 1)
    repo = os.environ.get("VERIF_REPO", "/repo")
    jobs = int(os.environ.get("VERIF_JOBS", "16"))
    key = "default" if repo == "/repo" else "r" + hashlib.sha1(repo.encode()).hexdigest()[:10]
    bdir = os.path.join(V, "build", key)
    outdir = os.path.join(V, "out", key)
    os.makedirs(os.path.join(V, "build"), exist_ok=True); os.makedirs(outdir, exist_ok=True); os.makedirs(os.path.join(V, "evidence"), exist_ok=True)
    t0 = time.time()
    # ---- build (serialised: checks may run concurrently)
    with open(os.path.join(V, "build", ".lock"), "w") as lk:
        fcntl.flock(lk, fcntl.LOCK_EX)
        r = subprocess.run(["make", "-C", os.path.join(V, "sim"), "REPO=" + repo, "KEY=" + key, "-j16"], stdout=subprocess.PIPE, stderr=subprocess.STDOUT, text=True)
        fcntl.flock(lk, fcntl.LOCK_UN)
    if r.returncode != 0:
        print("BUILD FAILED\n" + r.stdout[-4000:], file=sys.stderr); return 2
    mc = P.get("memcheck")      # extra stage: the same scenario on an unsanitised build under valgrind memcheck (uninitialised values)
    vglog = os.path.join(outdir, "vg", "log"); os.makedirs(os.path.join(outdir, "vg"), exist_ok=True); os.environ["COSIM_VGLOG"] = vglog
    VG = ["valgrind", "-q", "--trace-children=yes", "--error-exitcode=0", "--log-file=" + vglog + ".%p"]
    if mc:
        with open(os.path.join(V, "build", ".lock"), "w") as lk:
            fcntl.flock(lk, fcntl.LOCK_EX)
            r = subprocess.run(["make", "-C", os.path.join(V, "sim"), "REPO=" + repo, "KEY=" + key + "-vg", "SAN=", "OPT=-O1 -gdwarf-4 -DCOSIM_VALGRIND", "-j16"], stdout=subprocess.PIPE, stderr=subprocess.STDOUT, text=True)
            fcntl.flock(lk, fcntl.LOCK_UN)
        if r.returncode != 0:
            print("BUILD (valgrind variant) FAILED\n" + r.stdout[-4000:], file=sys.stderr); return 2
    vbins = {"A": os.path.join(bdir + "-vg", "cosim_A"), "B": os.path.join(bdir + "-vg", "cosim_B")}
    tb = time.time() - t0
    bins = {"A": os.path.join(bdir, "cosim_A"), "B": os.path.join(bdir, "cosim_B")}
    known_file = os.path.join(V, "KNOWN_FINDINGS.txt")
    known = []
    for l in open(known_file):
        if l.startswith("open:") and ("property=" + pid + " ") in l:
            sig = l.split("sig=", 1)[1].split()[0]; known.append((sig, l.split("sig=" + sig, 1)[1].strip()))
    unknown = 0; knowncnt = 0; machinery = 0; lines = []
    # ---- regression plans (minimised replays of every finding ever confirmed)
    regress = []
    for f in sorted(glob.glob(os.path.join(V, "findings", pid, "*.json"))):
        try: b = json.load(open(f)).get("build", "A")
        except Exception: b = "A"
        if os.path.basename(f).startswith("memcheck-"):
            if not mc: continue
            rr = subprocess.run(VG + [vbins[b], "replay", f, "--outdir", outdir], stdout=subprocess.PIPE, stderr=subprocess.PIPE, text=True)
        else:
            rr = subprocess.run([bins[b], "replay", f, "--outdir", outdir], stdout=subprocess.PIPE, stderr=subprocess.PIPE, text=True)
        sig = ""
        for l in rr.stdout.splitlines():
            if "sig=" in l: sig = l.split("sig=", 1)[1].split()[0]
        is_open = os.path.basename(f).startswith("open-")
        regress.append({"plan": os.path.relpath(f, V), "result": "ok" if rr.returncode == 0 else "violation", "sig": sig})
        if rr.returncode == 0:
            if is_open: lines.append("NOTE: listed open finding %s no longer reproduces" % os.path.relpath(f, V))
            continue
        if rr.returncode != 1: machinery += 1; lines.append("MACHINERY: replay of %s exited %d\n%s" % (f, rr.returncode, rr.stderr[-800:])); continue
        kt = [t for (s, t) in known if s == sig]
        if kt: knowncnt += 1; lines.append("KNOWN-FINDING: property=%s %s [sig=%s replay=%s]" % (pid, kt[0], sig, f))
        else: unknown += 1; lines.append("VIOLATION property=%s replay=%s\n  regression plan fails again: %s" % (pid, f, rr.stdout.strip()[:600]))
    # ---- seeded search on both builds
    runs = P["runs"][tier]
    builds = P.get("builds", ["A", "B"])
    share = {b: runs // len(builds) for b in builds}
    procs = {}
    jw = max(1, jobs // len(builds))
    for b in builds:
        res = os.path.join(outdir, "%s-%s-%s.json" % (pid, tier, b))
        if os.path.exists(res): os.unlink(res)
        cmd = [bins[b], "run", P["scenario"], "--seed", str(seed), "--runs", str(share[b]), "--jobs", str(jw), "--tier", tier, "--out", res, "--outdir", outdir, "--known", known_file]
        procs[b] = (subprocess.Popen(cmd, stdout=subprocess.PIPE, stderr=subprocess.PIPE, text=True), res)
    results = {}
    mcruns = 0
    if mc:
        mcruns = mc[tier]
        for b in builds:
            res = os.path.join(outdir, "%s-%s-%s-memcheck.json" % (pid, tier, b))
            if os.path.exists(res): os.unlink(res)
            cmd = VG + [vbins[b], "run", P["scenario"], "--seed", str(seed), "--runs", str(mcruns // len(builds)), "--jobs", str(jw), "--tier", tier, "--out", res, "--outdir", os.path.join(outdir, "vg"), "--known", known_file]
            procs[b + "-memcheck"] = (subprocess.Popen(cmd, stdout=subprocess.PIPE, stderr=subprocess.PIPE, text=True), res)
    for b, (p, res) in procs.items():
        so, se = p.communicate()
        if p.returncode not in (0, 1): machinery += 1; lines.append("MACHINERY: cosim_%s exited %d\n%s" % (b, p.returncode, se[-1500:]))
        for l in so.splitlines():
            lines.append(l)
            if l.startswith("VIOLATION "): unknown += 1
            if l.startswith("KNOWN-FINDING:"): knowncnt += 1
        try: results[b] = json.load(open(res))
        except Exception as e: machinery += 1; lines.append("MACHINERY: no result file from cosim_%s (%s)" % (b, e))
    for f in glob.glob(vglog + ".*"): os.unlink(f)
    wall = time.time() - t0
    # ---- evidence
    mainr = {b: r for b, r in results.items() if not b.endswith("-memcheck")}; mcr = {b: r for b, r in results.items() if b.endswith("-memcheck")}
    ev = sum(r["evaluations"] for r in mainr.values()) + len(regress)
    cov = {"evaluations": ev,
           "distinct_nontrivial": sum(r["cov"]["traces"] for r in mainr.values()),
           "rule": P["rule"],
           "samples": [s for r in mainr.values() for s in r["samples"][:2]],
           "plans_generated": sum(r["runs"] for r in mainr.values()),
           "nontrivial_runs": sum(r["cov"]["nontrivial"] for r in mainr.values()),
           "distinct_abstract_states": sum(r["cov"]["states"] for r in mainr.values()),
           "distinct_state_op_pairs": sum(r["cov"]["pairs"] for r in mainr.values()),
           "operations_executed": sum(r["cov"]["ops"] for r in mainr.values()),
           "frames_delivered": sum(r["cov"]["frames_in"] for r in mainr.values()),
           "frames_emitted": sum(r["cov"]["frames_out"] for r in mainr.values()),
           "simulated_seconds": round(sum(r["cov"]["sim_seconds"] for r in mainr.values()), 3),
           "runs_per_hour": int(ev / max(wall - tb, 1e-3) * 3600),
           "build_s": round(tb, 2),
           "per_build": {b: {"plans": r["runs"], "evaluations": r["evaluations"], "wall_s": round(r["wall_s"], 2)} for b, r in mainr.items()},
           "counters": {}, "regression_plans": regress,
           "components": COMPONENTS, "technique": "deterministic simulation with fault injection: seeded search over plans (operation order, faults, configuration), lockstep reference model, minimised replay files"}
    for r in mainr.values():
        for k, v in r["cov"]["counters"].items(): cov["counters"][k] = cov["counters"].get(k, 0) + v
    if mcr: cov["memcheck_stage"] = {"what": "the first plans of the same seeded sequence executed again on an unsanitised build (-O1) under valgrind memcheck; a memcheck report during a plan is a violation (signature <id>/memcheck/<function>)", "evaluations": sum(r["evaluations"] for r in mcr.values()), "per_build": {b: {"plans": r["runs"], "wall_s": round(r["wall_s"], 2)} for b, r in mcr.items()}}
    zero = [p for p in P.get("probes", []) if cov["counters"].get(p, 0) == 0]
    if zero: cov["probes_at_zero"] = zero
    evidence = {"property_id": pid, "tier": tier, "seed": seed, "level": P["level"], "coverage": cov,
                "assumptions": COMMON_ASSUMPTIONS + P.get("assumptions", []), "wall_s": round(wall, 2), "violations": unknown,
                "known_findings_seen": knowncnt}
    evdir = os.environ.get("VERIF_EVIDENCE") or (os.path.join(V, "evidence") if key == "default" else os.path.join(outdir, "evidence"))   # runs against a scratch copy (VERIF_REPO) do not touch the evidence of /repo
    os.makedirs(evdir, exist_ok=True)
    with open(os.path.join(evdir, pid + ".json"), "w") as f: json.dump(evidence, f, indent=1)
    for l in lines: print(l)
    print("%s %s: %d evaluations, %d distinct non-trivial traces, %d unknown violation(s), %d known finding(s), %.1fs (build %.1fs)%s" %
          (pid, tier, ev, cov["distinct_nontrivial"], unknown, knowncnt, wall, tb, "  probes at zero: " + ",".join(zero) if zero else ""))
    if machinery: return 2
    return 1 if unknown else 0

if __name__ == "__main__":
    sys.exit(main())
