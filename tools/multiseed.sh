#!/bin/bash
# tools/multiseed.sh <tier> <seed>...   every claimed check at the given tier for each base seed; evidence goes to out/multiseed/, not to evidence/
# prints one line per (property, seed) and a summary; exit 1 if any run did not exit 0  (no-false-alarm evidence, DESIGN.md section 15)
tier=$1; shift
mkdir -p /verif/out/multiseed; bad=0
for seed in "$@"; do
  for p in $(python3 -c "import sys; sys.path.insert(0,'/verif'); from props import PROPS; print(' '.join(sorted(PROPS)))"); do
    out=$(VERIF_SEED=$seed VERIF_EVIDENCE=/verif/out/multiseed python3 /verif/check.py $p $tier 2>&1); rc=$?
    echo "seed=$seed $p rc=$rc $(echo "$out" | tail -1)"
    [ $rc = 0 ] || { bad=$((bad+1)); echo "$out" | head -20; }
  done
done
echo "multiseed: $bad run(s) did not exit 0"
[ $bad = 0 ]
