#!/bin/bash
# tools/thorough.sh [Cxx ...]   the thorough tier of every (or the named) check, one after the other; evidence goes to out/thorough/
mkdir -p /verif/out/thorough; bad=0
props=${@:-$(python3 -c "import sys; sys.path.insert(0,'/verif'); from props import PROPS; print(' '.join(sorted(PROPS)))")}
for p in $props; do
  out=$(VERIF_EVIDENCE=/verif/out/thorough python3 /verif/check.py $p thorough 2>&1); rc=$?
  echo "$p rc=$rc $(echo "$out" | tail -1)"
  [ $rc = 0 ] || { bad=$((bad+1)); echo "$out" | head -30; }
done
echo "thorough: $bad check(s) did not exit 0"
[ $bad = 0 ]
