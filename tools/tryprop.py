#!/usr/bin/env python3
# tools/tryprop.py <seeded-name|patch> <Cxx> [tier]: run another property's check against a seeded change
import sys, os
sys.path.insert(0, '/verif')
import selftest
name, pid = sys.argv[1], sys.argv[2]; tier = sys.argv[3] if len(sys.argv) > 3 else 'quick'
patch = name if os.path.exists(name) else '/verif/seeded/%s/patch.diff' % name
d = selftest.scratch_repo(patch)
try:
    rc, so, se, dt = selftest.run_check(pid, tier, d)
    sigs = sorted(set(l.split("sig=", 1)[1].split()[0] for l in so.splitlines() if "sig=" in l))
    print({1: 'CAUGHT', 0: 'MISSED', 2: 'MACHINERY'}.get(rc, rc), pid, name, '%.1fs' % dt, ' '.join(sigs)[:300])
    if rc == 2: print(se[-1500:])
finally:
    selftest.cleanup(d)
