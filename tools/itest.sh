#!/bin/bash
# Developer aid (not used by any registered check): upstream's integration suite registers no test on Linux
# (empty linker section), so `integration/all` is vacuous. This builds a scratch copy with working
# registration and runs the ~290 integration cases against /repo's current sources. Exit code = failures.
set -e
D=/tmp/itest
if [ ! -d $D/_b ]; then
  rm -rf $D; mkdir -p $D; (cd /repo && git archive HEAD | tar -x -C $D)
  sed -i 's|__attribute__((section(".test")))|__attribute__((section("test"), used))|; s|static const TS_INFOFUNC TEST_SECTION_START = (TS_INFOFUNC)0;|extern const TS_INFOFUNC TEST_SECTION_START;|; s|static const TS_INFOFUNC TEST_SECTION_END = (TS_INFOFUNC)0;|extern const TS_INFOFUNC TEST_SECTION_END;|' $D/tests/integration/testfrm/ts_types.h
  cmake -G Ninja -B $D/_b -S $D -DCMAKE_BUILD_TYPE=Debug >/dev/null
fi
rsync -a --delete /repo/src/ $D/src/
cmake --build $D/_b --target it-canopen-stack 2>&1 | grep -E "error|FAILED" || true
set +e
$D/_b/tests/integration/it-canopen-stack > $D/out.txt; rc=$?
echo "integration suite: $rc failure(s)"
exit $rc
