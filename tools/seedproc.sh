#!/bin/bash
# tools/seedproc.sh <Cxx> <name> <breaks> <needs>: confirm (seedcheck), write meta.json, drop the worktree, run the property's quick check against the change
set -u
id=$1; name=$2
/verif/tools/seedcheck.sh $id $name | tail -2 || exit 1
[ -f /verif/seeded/$name/patch.diff ] || exit 1
python3 /verif/tools/seedmeta.py $name $id "$3" "$4"
git -C /repo worktree remove --force /tmp/wt-$id; rm -f /tmp/brief-$id.txt /tmp/prop-$id.txt
python3 /verif/selftest.py mutants $name 2>&1 | tail -3
