#!/usr/bin/env python3
import sys, json, os
name, prop, breaks, needs = sys.argv[1:5]
d = os.path.join('/verif/seeded', name)
json.dump({"property": prop, "origin": "independent sub-agent (given only the property text and a scratch worktree of /repo)", "breaks": breaks, "needs": needs,
           "confirmed": "tools/seedcheck.sh: the agent's demo exits non-zero with the change and 0 without it; the repository's test suite still reports 250 passed with the change",
           "ran": "python3 selftest.py mutants " + name + "  (applies patch.diff to a scratch copy of /repo/src and runs the property's quick check with VERIF_REPO)"}, open(os.path.join(d, 'meta.json'), 'w'), indent=1)
