#!/usr/bin/env python3
"""repl.py <file> <<< 'OLD\n====\nNEW[\n@@@@\nOLD2\n====\nNEW2]'  - exact, newline-style preserving replacement (each OLD must occur once)."""
import sys
p = sys.argv[1]; s = open(p, newline='').read(); nl = '\r\n' if '\r\n' in s else '\n'
for part in sys.stdin.read().split("\n@@@@\n"):
    old, new = part.split("\n====\n") if "\n====\n" in part else (part.split("\n====")[0], "")
    old = old.rstrip("\n").replace("\n", nl); new = new.rstrip("\n").replace("\n", nl)
    if s.count(old) != 1: sys.exit("OLD occurs %d times in %s:\n%s" % (s.count(old), p, old))
    s = s.replace(old, new)
open(p, 'w', newline='').write(s)
