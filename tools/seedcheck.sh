#!/bin/bash
# tools/seedcheck.sh <Cxx> <name>: confirm a sub-agent's seeded breakage in its scratch worktree /tmp/wt-<Cxx>
# (demo FAILs with the change, PASSes without, repository tests still 250) and file it under /verif/seeded/<name>/.
set -u
id=$1; name=$2; wt=/tmp/wt-$id; sd=$wt/_seed
[ -f $sd/patch.diff ] && [ -f $sd/demo.c ] && [ -f $sd/build_demo.sh ] || { echo "deliverables missing in $sd"; exit 2; }
cd $wt
git diff --quiet -- src && { echo "change is not applied in the worktree"; exit 2; }
with=$(bash $sd/build_demo.sh >/dev/null 2>&1; echo $?)
# (no git stash here: the stash is shared between worktrees, parallel runs would swap patches)
git diff -- src > /tmp/seedcheck-$id.diff; git apply -R /tmp/seedcheck-$id.diff
without=$(bash $sd/build_demo.sh >/dev/null 2>&1; echo $?)
git apply /tmp/seedcheck-$id.diff; rm -f /tmp/seedcheck-$id.diff
[ -d _build ] || cmake -G Ninja -B _build -S . >/dev/null
cmake --build _build -- -k 0 >/dev/null 2>&1
tests=$(ctest --test-dir _build -j8 2>/dev/null | grep -c " Passed ")
echo "demo with change: exit $with (want != 0); without: exit $without (want 0); tests passed with change: $tests (want 250)"
[ "$with" != 0 ] && [ "$without" = 0 ] && [ "$tests" = 250 ] || { echo "NOT CONFIRMED"; exit 1; }
mkdir -p /verif/seeded/$name
git diff -- src > /verif/seeded/$name/patch.diff
cp $sd/demo.c $sd/build_demo.sh $sd/NOTES.md /verif/seeded/$name/ 2>/dev/null
echo "CONFIRMED -> /verif/seeded/$name"
