#!/usr/bin/env python3
"""Regenerates MANIFEST.json from props.py (single source of truth for what is claimed)."""
import json, os, subprocess, sys
V = os.path.dirname(os.path.abspath(__file__))
sys.path.insert(0, V)
from props import PROPS, LEVEL_TEXT, NOT_APPLICABLE
ids = [json.loads(l)["id"] for l in open(os.path.join(V, "properties.jsonl"))]
hooks = subprocess.run(["git", "-C", "/repo", "log", "--format=%H %s"], stdout=subprocess.PIPE, text=True).stdout.splitlines()
hook_commits = [l.split()[0] for l in hooks if " verif hook:" in l]
m = {"version": 1,
     "setup_cmd": "make -C /verif/sim -j16 && make -C /verif/sim KEY=default-vg SAN= 'OPT=-O1 -gdwarf-4 -DCOSIM_VALGRIND' -j16",
     "hooks": {"guard": "CO_VERIF_SIM", "enable": "checks compile /repo/src with -DCO_VERIF_SIM (see sim/Makefile); the define only enables CO_VERIF_YIELD() call sites in src/core/co_tmr.c",
               "baseline_off_cmd": "/verif/baseline.sh", "source_commits": hook_commits, "add_only": True},
     "engines": [{"name": "cosim", "path": "/verif/sim", "serves_properties": sorted(PROPS),
                  "kind_free_text": "deterministic simulator with fault injection: real stack + simulated CAN/timer/NVM/application/peers in one process, seeded plan generator, lockstep reference models, ddmin minimiser, replay files"}],
     "checks": [], "not_applicable": [],
     "notes": "check.py <id> <tier>: exit 0 held / 1 violation (VIOLATION property=<id> replay=<path>) / 2 machinery failure. KNOWN_FINDINGS.txt lists open and fixed findings; findings/<id>/*.json are regression plans replayed by every check. VERIF_REPO=<dir> points a check at another source tree (used by selftest.py mutants)."}
for pid in ids:
    if pid in PROPS:
        P = PROPS[pid]
        m["checks"].append({"property_id": pid, "quick_cmd": "python3 /verif/check.py %s quick" % pid, "thorough_cmd": "python3 /verif/check.py %s thorough" % pid,
                            "evidence_file": "/verif/evidence/%s.json" % pid, "replay_cmd_template": "/verif/build/default/cosim_$(jq -r .build {path}) replay {path} --verbose",
                            "engine": "cosim", "level_claimed": {"category": P["level"], "text": LEVEL_TEXT[pid], "design_ref": "DESIGN.md section 5, " + pid},
                            "level_note": P.get("level_note", "trusted base: the reference model in sim/ (hand-written from CiA 301/305 as quoted in the property), the simulated devices, clang sanitizers; sampling - a clean batch is evidence, not proof"),
                            "technique": P.get("technique", "deterministic simulation with fault injection (seeded plan search, lockstep reference model, replayable minimised plans)")})
    else:
        m["not_applicable"].append({"property_id": pid, "reason": NOT_APPLICABLE[pid]})
json.dump(m, open(os.path.join(V, "MANIFEST.json"), "w"), indent=1)
print("MANIFEST.json: %d checks, %d not applicable" % (len(m["checks"]), len(m["not_applicable"])))
