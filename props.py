# Per-property configuration of the checks (scenario, run counts, evidence texts).
COMMON_ASSUMPTIONS = [
    "driver contract: the simulated CAN/timer/NVM devices behave as the HAL documents (timer is an ideal down counter; ticks never land inside a lock/unlock section)",
    "task-level calls (CONodeProcess, COTmrProcess, API) are serialised by the integrator; only the tick service preempts",
    "sampling, not proof: seeded search over plans; a clean batch is evidence only",
    "stack compiled from the current working tree with clang -O1 ASan+UBSan, -DCO_VERIF_SIM; cfgA = defaults, cfgB = CO_SSDO_N=2 CO_CSDO_N=2 CO_RPDO_N=2 CO_TPDO_N=3 CO_EMCY_N=6",
]
COMPONENTS = {
    "real": ["src/core", "src/hal", "src/object", "src/service (all compiled from the working tree)"],
    "stub": ["CAN controller", "hardware timer", "NVM device", "application callbacks", "all other bus participants (reference actors)"],
}
PROPS = {
    "C07": {"scenario": "tmr_seq", "level": "exploration", "runs": {"quick": 60000, "thorough": 3000000},
            "rule": "one evaluation = one generated plan (create/delete/tick/conv sequence with pool size, frequency and callback scripts drawn per run) executed against the real timer module in lockstep with the reference timer model; non-trivial = at least two actions created; distinct = distinct hash of the sequence of (operation kind, abstract list shape after it)",
            "probes": ["ins-empty", "ins-before-first", "ins-equal-first", "ins-between", "ins-equal-inner", "ins-after-last", "del-only", "del-first", "del-inner", "del-last", "del-shared-event", "pool-full-create", "periodic-rearmed", "conv-exact-case", "process-multi"],
            "assumptions": ["strict regime: every tick on which an event elapses is followed by COTmrProcess before the next tick"]},
    "C08": {"scenario": "tmr_irq", "level": "fault_enumeration", "runs": {"quick": 2400, "thorough": 120000},
            "rule": "one evaluation = one plan execution; every generated task-level sequence is executed once as generated (random multi-preemption), once without preemption and then once per preemption point of that clean run with a single tick ISR injected exactly there (sweep over lock entry, unlock exit, callback bodies and CO_VERIF_YIELD sites); non-trivial = an ISR actually fired inside an operation or an elapsed-unprocessed action was deleted; distinct = distinct abstract trace hash",
            "probes": ["preempt-fired", "del-elapsed-only", "del-elapsed-shared", "delete-detached-refused", "process-multi"],
            "assumptions": ["preemption is injected at function-call boundaries and guarded yield sites, never inside lock/unlock sections"]},
}

LEVEL_TEXT = {
    "C07": "Seeded exploration of create/delete/tick/process/conversion sequences against an exact lockstep timer model (due tick, once per expiry, slot accounting, create/delete verdicts) on the real timer module with a simulated hardware counter; exact to the tick. Exploration, not exhaustive to a depth bound.",
    "C08": "Fault enumeration over the preemption dimension: for every generated task-level sequence the tick ISR is injected once at every preemption point (lock entry, unlock exit, callback bodies, guarded yield sites between statements) plus random multi-preemption and deferred processing; pool-conservation walk at every point and exact lockstep model (insertion moment observed at the lock).",
}
_WIP = "check not built yet in this round (work in progress; see DESIGN.md section 5 for the planned scenario)"
NOT_APPLICABLE = {p: _WIP for p in ["C01", "C02", "C03", "C04", "C05", "C09", "C10", "C11", "C12", "C13", "C14", "C15", "C16", "C17", "C18", "C19", "C20"]}
NOT_APPLICABLE["C06"] = "pure function of (dictionary, key, value, length): no schedule, clock, peer, fault or history enters it, so deterministic simulation has nothing to decide; deciding it needs input enumeration / bounded model checking, which is another technique (DESIGN.md section 5, C06)"
