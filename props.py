# Per-property configuration of the checks (scenario, run counts, evidence texts).
COMMON_ASSUMPTIONS = [
    "driver contract: the simulated CAN/timer/NVM devices behave as the HAL documents (timer is an ideal down counter; ticks never land inside a lock/unlock section)",
    "task-level calls (CONodeProcess, COTmrProcess, API) are serialised by the integrator; only the tick service preempts",
    "sampling, not proof: seeded search over plans; a clean batch is evidence only",
    "stack compiled from the current working tree with clang -O1 ASan+UBSan, -DCO_VERIF_SIM; cfgA = defaults, cfgB = CO_SSDO_N=2 CO_CSDO_N=2 CO_RPDO_N=2 CO_TPDO_N=3 CO_EMCY_N=6",
]
COMPONENTS = {
    "real": ["src/core", "src/hal", "src/object", "src/service (all compiled from the working tree)"],
    "stub": ["CAN controller", "hardware timer", "NVM device", "application callbacks", "all other bus participants (reference actors)"],
}
PROPS = {
    "C07": {"scenario": "tmr_seq", "level": "exploration", "runs": {"quick": 60000, "thorough": 3000000},
            "rule": "one evaluation = one generated plan (create/delete/tick/conv sequence with pool size, frequency and callback scripts drawn per run) executed against the real timer module in lockstep with the reference timer model; non-trivial = at least two actions created; distinct = distinct hash of the sequence of (operation kind, abstract list shape after it)",
            "probes": ["ins-empty", "ins-before-first", "ins-equal-first", "ins-between", "ins-equal-inner", "ins-after-last", "del-only", "del-first", "del-inner", "del-last", "del-shared-event", "pool-full-create", "periodic-rearmed", "conv-exact-case", "process-multi"],
            "assumptions": ["strict regime: every tick on which an event elapses is followed by COTmrProcess before the next tick"]},
    "C08": {"scenario": "tmr_irq", "level": "fault_enumeration", "runs": {"quick": 2400, "thorough": 120000},
            "rule": "one evaluation = one plan execution; every generated task-level sequence is executed once as generated (random multi-preemption), once without preemption and then once per preemption point of that clean run with a single tick ISR injected exactly there (sweep over lock entry, unlock exit, callback bodies and CO_VERIF_YIELD sites); non-trivial = an ISR actually fired inside an operation or an elapsed-unprocessed action was deleted; distinct = distinct abstract trace hash",
            "probes": ["preempt-fired", "del-elapsed-only", "del-elapsed-shared", "delete-detached-refused", "process-multi"],
            "assumptions": ["preemption is injected at function-call boundaries and guarded yield sites, never inside lock/unlock sections"]},
    "C02": {"scenario": "sdo_dn", "level": "exploration", "runs": {"quick": 40000, "thorough": 3000000},
            "rule": "one evaluation = one plan: 1-3 rounds of one or two interleaved reference-client sessions (mostly downloads; expedited/segmented/block, size announced or not, lost/duplicated block segments, second server in cfgB) driven frame by frame against the real server; after every client frame the responses are checked against CiA 301 and object storage against the session's payload; non-trivial = every run (each carries at least one complete session); distinct = distinct hash of the sequence of (session phase, mode, direction, fault, repeat) per step",
            "probes": ["dn-exp", "dn-seg", "dn-blk", "confirmed", "refused", "F1-segment-lost", "F2-segment-duplicated", "blk-retransmit", "flush-at-889", "int-via-segmented-or-block", "two-servers-interleaved", "client-abort-after-lost-final-segment"],
            "assumptions": ["conforming client only: never sends more than announced; a duplicated block-final segment is not generated; two sessions never share a server or an object"]},
    "C03": {"scenario": "sdo_up", "level": "exploration", "runs": {"quick": 40000, "thorough": 3000000},
            "rule": "as C02 with mostly uploads: every acknowledge of a block upload sub-block picks a prefix k of the segments sent (0..all) and a new block size; reassembled bytes are compared with the object's storage read before the transfer; distinct = distinct step-trace hash",
            "probes": ["up-exp", "up-seg", "up-blk", "confirmed", "blkup-repeat", "two-servers-interleaved"],
            "assumptions": ["pst = 0 (no protocol switch requested)"]},
    "C04": {"scenario": "sdo_req", "level": "exploration", "runs": {"quick": 120000, "thorough": 6000000},
            "rule": "one evaluation = one plan of 1-6 rounds [optional prefix that opens a transfer and advances it 1-6 frames; one request under test with any command byte, multiplexer and payload; client abort]; response count, addressee, multiplexer, verdict code (exact in idle state, CiA precedence) and side effects are checked; non-trivial = a request under test arrived in a non-idle server state; distinct = distinct hash of (server state, command class, mux class, low command bits) sequence",
            "probes": ["idle-request", "positive-init", "verdict-no-object", "verdict-no-subindex", "verdict-read-only", "verdict-write-only", "verdict-length-high", "verdict-length-low", "verdict-type-code", "verdict-unknown-command", "verdict-toggle", "verdict-block-size", "verdict-accepted", "nonidle-request-state-1", "nonidle-request-state-2", "nonidle-request-state-3", "nonidle-request-state-4", "nonidle-request-state-5", "nonidle-request-state-6", "nonidle-request-state-7"],
            "assumptions": ["requests with reserved command bits set, DLC < 8, or an indicated size of 0 are constrained in count and addressee only"]},
    "C05": {"scenario": "sdo_wedge", "level": "exploration", "runs": {"quick": 40000, "thorough": 2000000},
            "rule": "one evaluation = one plan: a history of 0-50 (thorough: 120) frames on the server's COB-ID (structured requests, garbage, abandoned reference sessions), then a client abort or an NMT reset communication/node, then 1-3 clean transfers from a covering set which must be confirmed with correct data; non-trivial = a clean transfer ran after recovery; distinct = distinct hash of (abstract server state via public struct, command class) sequence",
            "probes": ["clean-transfer-after-recovery", "history-session", "reset-communication", "confirmed"],
            "assumptions": ["the dictionary holds plain data objects only, 1200h entries are constant, so no history can legitimately reconfigure the server"]},
    "C09": {"scenario": "nmt", "level": "exploration", "runs": {"quick": 200000, "thorough": 10000000},
            "rule": "one evaluation = one plan of 2-20 (thorough: 40) operations over {NMT command x target x DLC, CONodeStart, CONmtSetMode, CONmtReset, CONodeStop + re-init, one probe per service (SDO upload, RPDO, SYNC, heartbeat of the monitored node, LSS, foreign frame, EMCY set/clear, TPDO trigger, one heartbeat period)}; after every operation mode, boot-up count, callbacks, emitted frames and object side effects are compared with the NMT/gating model; variants give an RPDO the SYNC or the SDO COB-ID; non-trivial = the mode changed at least once; distinct = distinct hash of the (mode before, operation, NMT cs, target class) sequence",
            "probes": ["nmt-reset", "api-reset", "node-stop", "nmt-foreign-target", "nmt-same-state", "nmt-unknown-cs", "mode4-p_sdo", "mode4-p_rpdo", "mode4-p_sync", "mode4-p_emcy", "mode4-p_tick", "mode2-p_rpdo", "mode2-p_sync", "mode3-p_sync", "mode1-p_sdo", "mode0-p_foreign"],
            "assumptions": ["NMT frames with DLC < 2 are not constrained; after CONodeStop and in STOPPED an unclaimed frame may reach the application callback at most once"]},
    "C10": {"scenario": "hbprod", "level": "exploration", "runs": {"quick": 120000, "thorough": 6000000},
            "rule": "one evaluation = one plan of 3-25 (thorough: 50) operations over {tick n, NMT command, 1017h write via SDO/API, SDO writes to TPDO event/inhibit times, 1005h, 1006h, 1016h, TPDO COB-ID, TPDO triggers, application timers, heartbeats of monitored nodes, CAN send failures} with timer frequency and all periods drawn per run; after every operation the (tick, state byte) list of frames on 700h+id is compared with the reference schedule, exact to the tick; non-trivial = more than 3 operations; distinct = distinct hash of (operation, mode, producer on/off, reconfigured object) sequence",
            "probes": ["write-while-running", "write-while-off", "reset-while-running", "other-user-reconfigured", "hb-tick-collides-with-other-timer-user", "heartbeats-checked", "F5-send-failure-armed"],
            "assumptions": ["strict regime; timer pool sized for the worst case (32); heartbeat times below one tick are not generated; send attempts count (a failed CAN send is not retried and not asked to be)"]},
}

LEVEL_TEXT = {
    "C07": "Seeded exploration of create/delete/tick/process/conversion sequences against an exact lockstep timer model (due tick, once per expiry, slot accounting, create/delete verdicts) on the real timer module with a simulated hardware counter; exact to the tick. Exploration, not exhaustive to a depth bound.",
    "C08": "Fault enumeration over the preemption dimension: for every generated task-level sequence the tick ISR is injected once at every preemption point (lock entry, unlock exit, callback bodies, guarded yield sites between statements) plus random multi-preemption and deferred processing; pool-conservation walk at every point and exact lockstep model (insertion moment observed at the lock).",
    "C02": "Seeded exploration: a reference CiA-301 client drives downloads of every mode/size/announce/loss pattern frame by frame against the real server (two servers interleaved in cfgB); every response field and the object bytes (incl. bytes beyond the payload and all other objects) are compared with the model after every frame.",
    "C03": "Seeded exploration: reference client uploads with every block size, acknowledge prefix and block-size change; every segment's sequence number, c bit, data and the end frame's n are checked, reassembled bytes compared with storage.",
    "C04": "Seeded exploration of arbitrary requests (all 256 command bytes, existing/absent/wrong-sub multiplexers, arbitrary payload) arriving in idle and in every non-idle server state reached by a conforming prefix; exact abort code in idle state, count/addressee/multiplexer/side effects in all states.",
    "C05": "Seeded exploration of arbitrary frame histories followed by [client abort | NMT reset] and a clean transfer that must succeed: recovery reachability (AG EF idle) sampled over histories; sampling, not explicit-state enumeration.",
    "C09": "Seeded exploration of NMT command / API / probe sequences against the CiA-301 slave state machine and a per-state gating table; every service is probed in every state after multi-step paths; sampling, not exhaustive to a depth bound.",
    "C10": "Seeded exploration of histories mixing ticks, NMT commands, 1017h writes and reconfiguration of every other timer user; the tick-stamped bus log of heartbeat frames is compared with an exact reference schedule after every operation.",
}
_WIP = "check not built yet in this round (work in progress; see DESIGN.md section 5 for the planned scenario)"
NOT_APPLICABLE = {p: _WIP for p in ["C01", "C11", "C12", "C13", "C14", "C15", "C16", "C17", "C18", "C19", "C20"]}
NOT_APPLICABLE["C06"] = "pure function of (dictionary, key, value, length): no schedule, clock, peer, fault or history enters it, so deterministic simulation has nothing to decide; deciding it needs input enumeration / bounded model checking, which is another technique (DESIGN.md section 5, C06)"
